"""C01 — job id = MD5 of canonical JSON, order independent (DESIGN §4 C01)."""
import hashlib
import itertools
import copy
import json
from harness.ws_common import _scribble
import os
import random
import re

from harness import gen
from harness.core import enc_val, exc_name, hx, tagged

ID = "C01"
TITLE = "Job id is the canonical, order-independent hash of the state point value"
LEAN_MODULE = "Signac.Properties.C01"
DRIVER = "drv_c01"
DESIGN_REF = "DESIGN.md §4 C01"
RULE = ("(+ `signac job <text>` with four spellings of the JSON text; in-place type-only changes of one entry; nested synced "
        "collections as values) " + ("bounded-exhaustive mappings over the 12-scalar alphabet (1-2 entries, lists/sub-mappings of "
        "1-2 scalars) + seeded random deep values (depth<=6, ints to 2^53, random finite floats, strings "
        "with control/quote/backslash/BMP/astral characters) + golden ids; each value is hashed through "
        "calc_id for dict, permuted-dict, tuple, JSON round-trip and state-point-collection spellings, "
        "through open_job().id and (sampled) through init() + fresh Project; distinct = distinct canonical "
        "text; non-trivial = mapping with >=1 entry"))
MODELLED = ["CPython json.dumps float repr (opaque token supplied by the harness)",
            "hashlib.md5 (re-implemented in Lean, compared on every case)",
            "MD5 collision-freeness (needed for 'different values get different ids'; checked pairwise only)"]
ASSUMPTIONS = ["state points are JSON values with str keys, finite floats, strings of Unicode scalars"]
EXHAUSTIVE = {"quick": False, "thorough": False}

GOLDEN = [  # pinned ids published in signac's docs / tests (tests/test_job.py)
    ({"a": 1}, "42b7b4f2921788ea14dac5566e6f06d0"),
    ({"b": 1.0}, "0ba6c5a46111313f11c41a6642520451"),
    ({"c": "1.0"}, "80fa45716dd3b83fa970877489beb42e"),
    ({"d": True}, "33cf9999de25a715a56339c6c1b28b41"),
    ({"e": [1.0, "1.0", 1, True]}, "4d8058a305b940005be419b30e99bb53"),
    ({"f": [1.0, "1.0", 1, True]}, "e998db9b595e170bdff936f88ccdbf75"),
    ({"b": 2, "a": 1}, "8aacdb17187e6acf2b175d4aa08d7213"),
]


def small_values():
    S = gen.SCALARS
    for s in S:
        yield {"a": s}
    for s, t in itertools.product(S, S):
        yield {"b": s, "a": t}
        yield {"a": [s, t]}
        yield {"a": {"c": s, "b": t}}
    for s in S:
        yield {"a": [s]}
        yield {"a": {"b": s}}
        yield {"a": [[s]], "B": {"b": {"c": s}}}
        yield {"é": s, "a b": [s, {"z9": s, "_x": None}], "": s}


def generate(tier, rng):
    n_random = 5000 if tier == "quick" else 60000
    for v, _ in GOLDEN:
        yield {"v": v, "ps": 1, "fs": True}
    for v in ({"path": "data/run1"}, {"p/q": ["a/b", {"c": "/"}], "n": 1}, {"u": "\u00e9/\\", "t": "tab\there"}):
        yield {"v": v, "ps": 1, "fs": True}     # strings with '/', '\\', non-ASCII: JSON texts with escapes
    i = 0
    for v in small_values():
        i += 1
        yield {"v": v, "ps": rng.randrange(1 << 30), "fs": (i % (16 if tier == "quick" else 4) == 0)}
    for j in range(n_random):
        depth = rng.choice([1, 2, 2, 3, 3, 4, 5, 6])
        v = gen.rand_obj(rng, depth, minlen=0 if j % 50 == 0 else 1, maxlen=5)
        yield {"v": v, "ps": rng.randrange(1 << 30), "fs": (j % (10 if tier == "quick" else 5) == 0)}


def search(rng, deadline):
    while True:
        depth = rng.choice([1, 2, 3, 4])
        yield {"v": gen.rand_obj(rng, depth, minlen=1, maxlen=6), "ps": rng.randrange(1 << 30), "fs": True}


def shrink(case):
    for v in gen.shrink_value(case["v"]):
        if isinstance(v, dict):
            yield dict(case, v=v)


def _cli_job(path, text):
    """`signac job <text>` in-process with the project directory as cwd -> (printed word, exit code)"""
    import contextlib
    import io
    import sys

    import signac.__main__ as M

    out, err = io.StringIO(), io.StringIO()
    old_argv, old_cwd = sys.argv, os.getcwd()
    code = 0
    try:
        os.chdir(path)
        sys.argv = ["signac", "job", text]
        with contextlib.redirect_stdout(out), contextlib.redirect_stderr(err):
            try:
                M.main()
            except SystemExit as e:
                code = e.code if isinstance(e.code, int) else (0 if e.code is None else 1)
    finally:
        sys.argv = old_argv
        os.chdir(old_cwd)
    return out.getvalue().strip(), code


def ref_id(v):
    """The property's own definition, no signac code involved."""
    return hashlib.md5(json.dumps(v, sort_keys=True).encode()).hexdigest()


def near_misses(v, rng):
    """Values that differ from v as JSON values."""
    out = []
    d = dict(v)
    d["__extra"] = 0
    out.append(d)

    def mutate(x):
        if x is True:
            return 1
        if x is False:
            return 0
        if isinstance(x, int):
            return float(x) if abs(x) < 2**53 else str(x)
        if isinstance(x, float):
            return int(x) if x.is_integer() and abs(x) < 2**53 else repr(x)
        if isinstance(x, str):
            return x + " "
        if x is None:
            return "null"
        if isinstance(x, list):
            if len(x) >= 2 and x != x[::-1]:
                return x[::-1]
            return x + [None]
        if isinstance(x, dict):
            if not x:
                return []
            k = sorted(x)[0]
            dd = dict(x)
            dd[k] = mutate(x[k])
            return dd
        return x

    if v:
        keys = list(v)
        k = keys[rng.randrange(len(keys))]
        d = dict(v)
        d[k] = mutate(v[k])
        out.append(d)
    return out


class _FloatTok(str):
    """a float token kept as text (json.loads parse_float / parse_constant hook)"""


def _enc_tok(x):
    """wire rendering of a parsed JSON text with float leaves as `D0/0:<hex of the token>` (what the Lean
    driver prints for `parse`: the reader does not know the numeric value of a float token)"""
    if isinstance(x, _FloatTok):
        return "D0/0:" + hx(str(x))
    if x is None:
        return "N"
    if x is True:
        return "T"
    if x is False:
        return "F"
    if isinstance(x, int):
        return "I%d" % x
    if isinstance(x, str):
        return "S" + hx(x)
    if isinstance(x, list):
        return " ".join(["A%d" % len(x)] + [_enc_tok(e) for e in x])
    if isinstance(x, dict):
        parts = ["O%d" % len(x)]
        for k, e in x.items():
            parts += ["S" + hx(k), _enc_tok(e)]
        return " ".join(parts)
    raise TypeError(type(x))


def _floats(v):
    if isinstance(v, float):
        yield v
    elif isinstance(v, dict):
        for x in v.values():
            yield from _floats(x)
    elif isinstance(v, (list, tuple)):
        for x in v:
            yield from _floats(x)


def run_case(case, ctx):
    import signac
    from signac.job import calc_id

    v = case["v"]
    prng = random.Random(case["ps"])
    spellings = [("dict", v)]
    for i in range(3):
        spellings.append(("perm%d" % i, gen.shuffled(v, prng)))
    spellings.append(("tuple", gen.tupled(v)))
    spellings.append(("roundtrip", json.loads(json.dumps(v))))
    spellings.append(("sorted-roundtrip", json.loads(json.dumps(v, sort_keys=True))))

    model, impl, oracle = [], [], []
    want = ref_id(v)
    for name, s in spellings:
        plain = json.loads(json.dumps(s))  # tuples -> lists, keeps this spelling's key order
        model.append("id " + enc_val(plain))
        try:
            got = calc_id(s)
        except Exception as e:
            got = "EXC:" + exc_name(e)
        impl.append(got)
        if got != want:
            oracle.append("calc_id(%s spelling of %r) = %s, md5 of canonical text = %s" % (name, v, got, want))
    if not re.fullmatch(r"[0-9a-f]{32}", impl[0] if impl else ""):
        oracle.append("id %r is not 32 lower-case hex characters" % (impl[0],))

    # model's canonical text against CPython's own json.dumps (validates the modelled encoder)
    model.append("text " + enc_val(v))
    impl.append(hx(json.dumps(v, sort_keys=True)))
    # the Lean READER (Signac/JsonParse.lean, proved to invert the writer) against CPython's json.loads on the
    # text the real encoder produced: same structure, key order, strings; float leaves compared by their token text
    text = json.dumps(v)
    model.append("parse " + hx(text))
    impl.append(_enc_tok(json.loads(text, parse_float=_FloatTok, parse_constant=_FloatTok)))
    # hypothesis of the injectivity theorems (C01.equal_ids_collision_or_equal_checked), evaluated by
    # the Lean driver on this value: every float repr on the wire is a float token ...
    model.append("ftok " + enc_val(v))
    impl.append("ok")
    # ... and the repr determines the value (fv = float)
    for x in _floats(v):
        if not (x != x or float(repr(x)) == x):
            oracle.append("float %r is not determined by its repr" % (x,))

    # different JSON values => different ids
    for w in near_misses(v, prng):
        try:
            a, b = calc_id(v), calc_id(w)
        except Exception as e:
            oracle.append("calc_id raised %s" % exc_name(e))
            continue
        model.append("id " + enc_val(w))
        impl.append(b)
        if a == b:
            oracle.append("distinct JSON values %r and %r share id %s" % (v, w, a))

    tags = ["n_entries=%d" % min(len(v), 5)]
    # one session, several state points that Python compares equal (1 / 1.0 / True) or that differ slightly:
    # open_job must hand out the canonical id of EACH, whatever was opened before through the same Project
    d0 = ctx.fresh_dir("c01s")
    try:
        project = signac.init_project(d0)
        seq = [v] + near_misses(v, prng) + [gen.tupled(v), v]
        for x in seq:
            plainx = json.loads(json.dumps(x))
            try:
                # the caller keeps and mutates its own (list / tuple / dict) spelling after the call: the id
                # is the hash of the VALUE at open time and the job's state point stays that value
                mine = copy.deepcopy(x) if isinstance(x, dict) else x
                job = project.open_job(mine)
                got = job.id
                if isinstance(mine, dict):
                    _scribble(mine)
                    later = calc_id(job.statepoint())
                    if later != got or job.id != got:
                        oracle.append("open_job(%r): id %s, but after the caller mutated its own mapping the job's state "
                                      "point hashes to %s (id now %s)" % (x, got, later, job.id))
            except Exception as e:
                got = "EXC:" + exc_name(e)
            model.append("id " + enc_val(plainx))
            impl.append(got)
            if got != ref_id(plainx):
                oracle.append("open_job(%r).id = %s after opening %r in the same session; md5 of canonical text = %s" % (
                    x, got, seq[0], ref_id(plainx)))
    finally:
        ctx.cleanup(d0)
    # the command line: `signac job '<JSON text>'` prints the id of the value the text DENOTES, however the text
    # spells it (key order, white space, \/ and \uXXXX escapes, non-ASCII kept or escaped)
    if case.get("fs"):
        dc = ctx.fresh_dir("c01c")
        try:
            signac.init_project(dc)
            plainv = json.loads(json.dumps(v))
            texts = {"compact": json.dumps(plainv, separators=(",", ":")),
                     "sorted, indented, non-ASCII kept": json.dumps(plainv, sort_keys=True, indent=1, ensure_ascii=False)}
            texts["solidus escaped"] = texts["compact"].replace("/", "\\/")
            texts["all string characters as \\uXXXX"] = json.dumps(plainv).replace("/", "\\u002f")
            for how, text in texts.items():
                if text.startswith("-") or json.loads(text) != plainv:
                    continue
                got, code = _cli_job(dc, text)
                if code != 0 or got != ref_id(plainv):
                    oracle.append("`signac job` on the %s text %s printed %r (exit %s); md5 of the canonical text of the value = %s" % (
                        how, text[:120], got, code, ref_id(plainv)))
            tags.append("cli-job")
        finally:
            ctx.cleanup(dc)
    # "the id changes whenever the JSON value changes": an IN-PLACE change of one entry to a value that Python compares
    # equal (1 -> 1.0 -> True; inside nested mappings and lists too) is a change of the JSON value
    def retype(x):
        if x is True or x is False:
            return int(x)
        if isinstance(x, int) and abs(x) < 2**53:
            return float(x)
        if isinstance(x, float) and x.is_integer() and abs(x) < 2**53:
            return int(x)
        if isinstance(x, dict):
            for kk in sorted(x):
                r = retype(x[kk])
                if r is not None:
                    return dict(x, **{kk: r})
        if isinstance(x, list):
            for n, y in enumerate(x):
                r = retype(y)
                if r is not None:
                    return x[:n] + [r] + x[n + 1:]
        return None

    cands = [(k_, retype(x_)) for k_, x_ in sorted(v.items()) if retype(x_) is not None]
    if case.get("fs") and cands:
        k_, new_ = cands[case["ps"] % len(cands)]
        d5 = ctx.fresh_dir("c01r")
        try:
            p5 = signac.init_project(d5)
            j5 = p5.open_job(copy.deepcopy(v)).init()
            target = json.loads(json.dumps(dict(v, **{k_: new_})))
            try:
                j5.sp[k_] = copy.deepcopy(new_)
                got5 = {"handle id": j5.id, "handle state point": calc_id(j5.statepoint()),
                        "directory": ",".join(sorted(os.listdir(p5.workspace))),
                        "fresh session": ",".join(sorted(calc_id(x.statepoint()) for x in signac.Project(d5)))}
            except Exception as e:  # noqa: BLE001
                got5 = {"assignment": "EXC:" + exc_name(e)}
            for what, g in got5.items():
                if g != ref_id(target):
                    oracle.append("after job.sp[%r] = %r on %r: %s gives %s, md5 of the canonical text of the new value = %s" % (
                        k_, new_, v, what, g, ref_id(target)))
            tags.append("inplace-retype")
        finally:
            ctx.cleanup(d5)
    if case.get("fs"):
        tags.append("fs")
        d = ctx.fresh_dir("c01")
        try:
            project = signac.init_project(d)
            job = project.open_job(gen.tupled(v) if case["ps"] % 2 else v)
            ids = {"open_job": job.id}
            try:
                ids["calc_id(job.statepoint)"] = calc_id(job.statepoint)
                ids["calc_id(job.cached_statepoint)"] = calc_id(dict(job.cached_statepoint))
            except Exception as e:
                ids["calc_id(job.statepoint)"] = "EXC:" + exc_name(e)
            try:
                job.init()
                names = sorted(os.listdir(project.workspace))
                ids["directory"] = names[0] if len(names) == 1 else repr(names)
                with open(os.path.join(project.workspace, names[0], "signac_statepoint.json")) as f:
                    on_disk = json.load(f)
                ids["file"] = ref_id(on_disk)
                fresh = signac.Project(d)
                ids["fresh-iter"] = ",".join(sorted(j.id for j in fresh))
                ids["fresh-by-id-sp"] = calc_id(fresh.open_job(id=want).statepoint())
            except Exception as e:
                ids["init"] = "EXC:" + exc_name(e)
            for k, got in ids.items():
                if got != want:
                    oracle.append("%s gives %s for %r, md5 of canonical text = %s" % (k, got, v, want))
            model.append("id " + enc_val(v))
            impl.append(ids.get("directory", "?"))
        finally:
            ctx.cleanup(d)
        # synced-collection spelling: a job / project DOCUMENT holding the value, handed to open_job in a session
        # that has not loaded it yet, and a state point of another job
        if isinstance(v, dict):
            d3 = ctx.fresh_dir("c01d")
            try:
                p3 = signac.init_project(d3)
                holder = p3.open_job({"holder": 1}).init()
                other = p3.open_job(v).init()
                try:
                    p3.document = v
                    holder.document = v
                    stored = True
                except Exception:  # not a valid document (e.g. a key with a dot): this spelling does not exist
                    stored = False
                spell = {}
                if stored:
                    f1 = signac.Project(d3)
                    spell["open_job(project.document) in a session that has not read it"] = lambda: f1.open_job(f1.document)
                    f2 = signac.Project(d3)
                    spell["open_job(job.document) in a session that has not read it"] = (
                        lambda: f2.open_job(f2.open_job(id=holder.id).document))
                f3 = signac.Project(d3)
                spell["open_job(other_job.statepoint) of a handle opened by id"] = lambda: f3.open_job(f3.open_job(id=other.id).statepoint)
                for name, fn in spell.items():
                    try:
                        j3 = fn()
                        got3 = (j3.id, calc_id(j3.statepoint()))
                    except Exception as e:
                        got3 = ("EXC:" + exc_name(e),) * 2
                    if got3 != (want, want):
                        oracle.append("%s: id %s, its state point hashes to %s; md5 of the canonical text of %r = %s" % (
                            name, got3[0], got3[1], v, want))
                # the value as a PART of a state point: a nested synced collection (a sub-mapping of a document, read
                # by this session BEFORE another session replaced it; a sub-mapping of another job's state point)
                want_w = ref_id({"w": v})
                nested = {}
                if stored:
                    try:
                        p3.document = {"w": {"stale": 0}}
                        f4 = signac.Project(d3)
                        child = f4.document["w"]
                        dict(child)                       # loaded now, with the old content
                        signac.Project(d3).document = {"w": v}
                        nested["open_job({'w': <sub-mapping of a document that another session has replaced since>})"] = (
                            lambda: f4.open_job({"w": child}))
                    except Exception:  # noqa: BLE001
                        pass
                wrapped = signac.Project(d3).open_job({"w": v}).init()
                f5 = signac.Project(d3)
                nested["open_job({'w': <sub-mapping of another job's state point>})"] = (
                    lambda: f5.open_job({"w": f5.open_job(id=wrapped.id).sp["w"]}))
                for name, fn in nested.items():
                    try:
                        j3 = fn()
                        got3 = (j3.id, calc_id(j3.statepoint()))
                    except Exception as e:
                        got3 = ("EXC:" + exc_name(e),) * 2
                    if got3 != (want_w, want_w):
                        oracle.append("%s: id %s, its state point hashes to %s; md5 of the canonical text of %r = %s" % (
                            name, got3[0], got3[1], {"w": v}, want_w))
                tags.append("synced-spelling=%s" % stored)
                # "in every session": a session that re-keyed a job it had opened by id must still hand out the OLD
                # id with the old value once that job exists again (created by another session)
                s1 = signac.Project(d3)
                hnd = s1.open_job(id=other.id)
                hnd.statepoint()
                hnd.sp["zz_rekeyed"] = 1
                signac.Project(d3).open_job(v).init()
                for name, fn in (("statepoint()", lambda: s1.open_job(id=other.id).statepoint()),
                                 ("cached_statepoint", lambda: dict(s1.open_job(id=other.id).cached_statepoint)),
                                 ("iteration", lambda: {j_.id: j_.statepoint() for j_ in s1}[other.id])):
                    try:
                        got4 = calc_id(fn())
                    except Exception as e:
                        got4 = "EXC:" + exc_name(e)
                    if got4 != want:
                        oracle.append("after a job opened by id was re-keyed and its old id re-created by another session, "
                                      "%s of the old id hashes to %s, the id is %s" % (name, got4, want))
                # "the id is re-derived and compared on every state point load": a directory whose file hashes to
                # another id (copied by hand) is never handed out as a job with that content - not even by a session
                # that ran a search first
                import shutil as _sh
                wrong = ref_id({"zz_wrong_dir": 1})
                _sh.copytree(os.path.join(p3.workspace, other.id), os.path.join(p3.workspace, wrong))
                s2 = signac.Project(d3)
                try:
                    list(s2.find_jobs({"zz_no_such_key": 1}))
                except Exception:
                    pass
                for name, fn in (("statepoint()", lambda: s2.open_job(id=wrong).statepoint()),
                                 ("cached_statepoint", lambda: dict(s2.open_job(id=wrong).cached_statepoint))):
                    try:
                        got5 = calc_id(fn())
                    except Exception:
                        continue
                    if got5 != wrong:
                        oracle.append("a directory named %s holding the state point file of %s is handed out by open_job(id=...).%s "
                                      "after a search in the same session" % (wrong[:8], got5[:8], name))
            finally:
                ctx.cleanup(d3)
    for gv, gid in GOLDEN:
        if tagged(v) == tagged(gv) and impl[0] != gid:
            oracle.append("pinned id of %r is %s, calc_id gives %s" % (gv, gid, impl[0]))
    key = json.dumps(v, sort_keys=True) if v else None
    return {"model": model, "impl": impl, "oracle": oracle, "tags": tags, "key": key}

TECHNIQUE = "Lean 4 theorems (order-independence of the canonical form by induction; injectivity of the JSON encoder as a prefix code; digest shape) + differential correspondence of the compiled Lean calc_id (own MD5, own JSON encoder) against signac.job.calc_id / open_job / init on generated values"
LEVEL_TEXT = ("Proved in Lean for all values, all nesting depths and all key permutations: the id is a function of the "
              "canonical form only (calcId_equiv, calcId_perm), the hashed text has sorted keys at every depth, hashing "
              "is idempotent under re-canonicalisation, and every id is 32 lower-case hex characters matching the "
              "extracted workspace pattern; conversely the hashed text determines the value (encChars_injective, "
              "canonChars_injective: the JSON encoder is a prefix code), so state points that differ as JSON values are "
              "hashed from different byte strings and equal ids mean equal canonical values or an explicit MD5 collision "
              "(equal_ids_collision_or_equal; 1 vs 1.0 vs true vs '1', list order, extra key: int_float_bool_str_distinct, "
              "list_order_distinct, extra_key_distinct). A JSON READER is part of the model (Signac/JsonParse.lean) and is proved to "
              "invert the writer: parseText (dumpChars v) = v and parseText (canonChars v) = canon v, hence the id survives a "
              "write/read round trip of the state point file and of the sort_keys text (dump_roundtrip_same_id, "
              "roundtrip_same_id); the reader is compared with json.loads on every text the real encoder produced. "
              "The Lean model (its own JSON encoder and MD5) is compared with the real "
              "calc_id on every generated value and spelling, so a change to encoder options, key sorting, escaping or "
              "hashing shows up as a disagreement with a concrete value.")
LEVEL_NOTE = ("Trusted: Lean kernel; axioms propext/Classical.choice/Quot.sound; harness (generator, wire format, "
              "oracle = hashlib.md5 of json.dumps(sort_keys=True)). Not proved: MD5 collision-freeness. The injectivity theorems need every float repr to be a float "
              "token that determines its value (FloatsOk); the driver evaluates the executable form of that hypothesis on "
              "every value of the run (ftok lines, floatsOk_iff). Strings with lone surrogates are outside the model (Lean "
              "Char) - there CPython's json.dumps itself is not injective. 'Different values get different ids' is also "
              "checked pairwise on generated near-miss values.")

"""Value generators shared by the property plug-ins (one PRNG, JSON-serialisable cases)."""
import math
import struct

SCALARS = [None, True, False, 0, 1, -1, 1.0, 0.5, "", "a", "é", "1"]
KEYS = ["a", "b", "c", "ab", "B", "é", "a b", "", "z9", "_x"]
ODD_CHARS = ['"', "\\", "\n", "\t", "\r", "\b", "\f", "\x00", "\x1f", "\x7f", "\x80", "é",
             " ", "￿", "\U0001f600", "\U0010ffff", " ", "/", "'", "{", "}", "[", "]", ",", ":"]


def rand_float(rng):
    m = rng.random()
    if m < 0.3:
        return float(rng.randint(-5, 5))
    if m < 0.5:
        return rng.choice([0.1, 0.5, 1.5, -2.25, 1e-7, 1e16, 1e22, 1.7976931348623157e308, 5e-324, -0.0, 3.14, 1e-5, 123456789.125])
    while True:
        x = struct.unpack("<d", struct.pack("<Q", rng.getrandbits(64)))[0]
        if math.isfinite(x):
            return x


def rand_int(rng):
    m = rng.random()
    if m < 0.5:
        return rng.randint(-3, 12)
    if m < 0.8:
        return rng.randint(-10**6, 10**6)
    return rng.choice([2**53 - 1, -(2**53) + 1, 2**31, -2**31, 2**32 + 1, 10**15])


def rand_str(rng, maxlen=6):
    m = rng.random()
    if m < 0.15:
        return ""
    n = rng.randint(1, maxlen)
    out = []
    for _ in range(n):
        r = rng.random()
        if r < 0.5:
            out.append(rng.choice("abcxyzABC019 _-."))
        elif r < 0.85:
            out.append(rng.choice(ODD_CHARS))
        else:
            cp = rng.randint(0x20, 0x2FFFF)
            if 0xD800 <= cp <= 0xDFFF:
                cp = 0xE000
            out.append(chr(cp))
    return "".join(out)


def rand_key(rng):
    if rng.random() < 0.7:
        return rng.choice(KEYS)
    k = rand_str(rng, 4).replace(".", "_")
    return k


def rand_scalar(rng):
    r = rng.random()
    if r < 0.1:
        return None
    if r < 0.2:
        return rng.random() < 0.5
    if r < 0.45:
        return rand_int(rng)
    if r < 0.65:
        return rand_float(rng)
    if r < 0.8:
        return rng.choice(SCALARS)
    return rand_str(rng)


def rand_value(rng, depth):
    r = rng.random()
    if depth <= 0 or r < 0.45:
        return rand_scalar(rng)
    if r < 0.7:
        return [rand_value(rng, depth - 1) for _ in range(rng.randint(0, 4))]
    return rand_obj(rng, depth - 1)


def rand_obj(rng, depth, minlen=0, maxlen=4):
    d = {}
    for _ in range(rng.randint(minlen, maxlen)):
        d[rand_key(rng)] = rand_value(rng, depth)
    return d


def shuffled(v, rng):
    """Same JSON value, object entries re-ordered at every depth."""
    if isinstance(v, dict):
        items = [(k, shuffled(x, rng)) for k, x in v.items()]
        rng.shuffle(items)
        return dict(items)
    if isinstance(v, list):
        return [shuffled(x, rng) for x in v]
    return v


def tupled(v):
    if isinstance(v, dict):
        return {k: tupled(x) for k, x in v.items()}
    if isinstance(v, list):
        return tuple(tupled(x) for x in v)
    return v


def shrink_value(v):
    """Smaller JSON values (for delta debugging)."""
    if isinstance(v, dict):
        for k in list(v):
            d = dict(v)
            del d[k]
            yield d
        for k in list(v):
            for s in shrink_value(v[k]):
                d = dict(v)
                d[k] = s
                yield d
    elif isinstance(v, list):
        for i in range(len(v)):
            yield v[:i] + v[i + 1:]
        for i in range(len(v)):
            for s in shrink_value(v[i]):
                yield v[:i] + [s] + v[i + 1:]
    elif isinstance(v, str) and v:
        yield ""
        yield v[: len(v) // 2]
        yield v[1:]
    elif isinstance(v, bool) or v is None:
        return
    elif isinstance(v, int) and v not in (0, 1):
        yield 0
        yield 1
    elif isinstance(v, float) and v not in (0.0, 0.5):
        yield 0.5

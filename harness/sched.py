"""Schedule stepper (DESIGN §2.4, used by C12): several forked actor processes run REAL code; every
file-system primitive an actor issues on a path below a watched root is announced to the scheduler
and performed only when the scheduler grants it.  A schedule is a replayable list of actor indices.

No change to /repo: the wrappers are installed from here, in the forked actor only, on
`builtins.open` / `io.open`, `os.replace/rename/remove/unlink/rmdir/mkdir/listdir/scandir/stat/lstat`
and `os.path.isfile/isdir/exists/islink` (`os.makedirs` is left alone: it is Python code made of
`os.path.exists` + `os.mkdir` + `os.path.isdir`, which are wrapped, so its internal race window is
schedulable).

Step kinds (what the Lean actor machines speak as well):
    isfile p | isdir p | exists p | islink p | stat p      -> "T" / "F"
    mkdir p | rmdir p | remove p                           -> "ok" / errno name
    listdir p                                              -> sorted names / errno name
    read p        open-for-read + read of the whole file   -> bytes / errno name
    openw p       open for writing (create/truncate)       -> "ok" / errno name
    write p       ONE write(2) on the raw file             -> "ok"          (payload recorded)
    close p       close of the raw file                    -> "ok"
    rename p q    os.replace / os.rename                   -> "ok" / errno name

Granularity assumptions (trusted base): each primitive is atomic w.r.t. the others; open-for-read
and the read of the whole content form one step (a reader of an atomically replaced file keeps its
inode, so this loses nothing for temp+replace writers and still exposes a truncate-then-write
writer); Python-level buffered data reaches the file in the `write` step(s) the raw file sees.

API
    run(actor_fns, chooser, root, timeout)      one execution; chooser(pending, trace) -> actor | None
    run_schedule(actor_fns, schedule, root)     follow `schedule`, skip finished actors, then finish
                                                the rest in index order (sequentially)
    explore(run_once, dependent, limit)         stateless DFS over all schedules with sleep sets
    dependent(step_a, step_b)                   conflict relation on steps (shared path / parent dir)
"""
import builtins
import errno
import io
import os
import pickle
import re
import select
import signal
import struct
import sys
import time
import traceback

_TMP_RE = re.compile(r"\._[0-9a-f]{8}-[0-9a-f]{4}-[0-9a-f]{4}-[0-9a-f]{4}-[0-9a-f]{12}_")


def canon_rel(path, root):
    """Path relative to the watched root with uuid temp names made canonical; None if outside."""
    try:
        p = os.path.abspath(os.fspath(path))
    except TypeError:
        return None
    if isinstance(p, bytes):
        p = p.decode("utf-8", "surrogateescape")
    if p == root:
        return "."
    if not p.startswith(root + os.sep):
        return None
    from harness import faultfs as _ff
    return _ff.canon_name(p[len(root) + 1:])


def _errname(e):
    if isinstance(e, OSError) and e.errno is not None:
        return errno.errorcode.get(e.errno, "E%d" % e.errno)
    return type(e).__name__


# ----------------------------------------------------------------------------
# message pipes (length-prefixed pickles over raw fds; usable with select)
# ----------------------------------------------------------------------------
def _send(fd, obj):
    blob = pickle.dumps(obj, protocol=4)
    data = struct.pack("<I", len(blob)) + blob
    while data:
        n = os.write(fd, data)
        data = data[n:]


def _recv_exact(fd, n):
    out = b""
    while len(out) < n:
        chunk = os.read(fd, n - len(out))
        if not chunk:
            raise EOFError
        out += chunk
    return out


def _recv(fd):
    (n,) = struct.unpack("<I", _recv_exact(fd, 4))
    return pickle.loads(_recv_exact(fd, n))


# ----------------------------------------------------------------------------
# actor side
# ----------------------------------------------------------------------------
class _Actor:
    """State of the tracer inside a forked actor."""

    def __init__(self, idx, root, to_sched, from_sched):
        self.idx, self.root = idx, root
        self.tx, self.rx = to_sched, from_sched
        self.inside = False

    def step(self, kind, paths, perform, payload=None):
        """Announce, wait for the grant, perform, report the canonical result."""
        _send(self.tx, ("step", kind, paths))
        g = _recv(self.rx)
        if g != "go":
            os._exit(97)
        self.inside = True
        exc = None
        try:
            val = perform()
            res = self.render(kind, val)
        except BaseException as e:  # noqa: B902 - reported, then re-raised into the real code
            exc, val, res = e, None, _errname(e)
        finally:
            self.inside = False
        _send(self.tx, ("done", res, payload))
        if exc is not None:
            raise exc
        return val

    @staticmethod
    def render(kind, val):
        if kind in ("isfile", "isdir", "exists", "islink"):
            return "T" if val else "F"
        if kind == "stat":
            return "T"
        if kind == "listdir":
            from harness import faultfs as _ff
            return sorted(_ff.canon_name(n if isinstance(n, str) else n.name) for n in val)
        if kind == "read":
            return val  # bytes
        return "ok"


_A = None  # the active _Actor in a forked actor process


def _install(actor):
    """Install the wrappers (only ever called in a forked actor, which ends with os._exit)."""
    global _A
    _A = actor
    root = actor.root
    real_open = builtins.open

    def rel(p):
        if _A.inside or isinstance(p, int):
            return None
        return canon_rel(p, root)

    class TracedRaw(io.FileIO):
        def __init__(self, path, mode, relp):
            super().__init__(path, mode)
            self._relp = relp
            self._closed_traced = False

        def write(self, b):
            data = bytes(b)
            return _A.step("write", [self._relp], lambda: io.FileIO.write(self, data), payload=data)

        def close(self):
            if self._closed_traced or self.closed:
                return io.FileIO.close(self)
            self._closed_traced = True
            return _A.step("close", [self._relp], lambda: io.FileIO.close(self))

    def t_open(file, mode="r", buffering=-1, encoding=None, errors=None, newline=None, closefd=True,
               opener=None):
        r = rel(file)
        if r is None:
            return real_open(file, mode, buffering, encoding, errors, newline, closefd, opener)
        binary = "b" in mode
        writing = any(c in mode for c in "wax+")
        if not writing:
            def do_read():
                with real_open(file, "rb") as f:
                    return f.read()
            data = _A.step("read", [r], do_read)
            bio = io.BytesIO(data)
            bio.name = file
            if binary:
                return bio
            return io.TextIOWrapper(bio, encoding=encoding or "utf-8", errors=errors, newline=newline)
        if "+" in mode or "a" in mode:
            raise RuntimeError("sched: unsupported open mode %r on watched path %s" % (mode, r))
        raw_mode = "x" if "x" in mode else "w"
        raw = _A.step("openw", [r], lambda: TracedRaw(file, raw_mode, r))
        buf = io.BufferedWriter(raw)
        if binary:
            return buf
        return io.TextIOWrapper(buf, encoding=encoding or "utf-8", errors=errors, newline=newline)

    builtins.open = t_open
    io.open = t_open

    def wrap1(mod, name, kind):
        real = getattr(mod, name)

        def w(path, *a, **kw):
            r = rel(path)
            if r is None:
                return real(path, *a, **kw)
            return _A.step(kind, [r], lambda: real(path, *a, **kw))
        w.__name__ = name
        setattr(mod, name, w)

    def wrap2(mod, name, kind):
        real = getattr(mod, name)

        def w(src, dst, *a, **kw):
            r1, r2 = rel(src), rel(dst)
            if r1 is None and r2 is None:
                return real(src, dst, *a, **kw)
            return _A.step(kind, [r1 or "<outside>", r2 or "<outside>"], lambda: real(src, dst, *a, **kw))
        w.__name__ = name
        setattr(mod, name, w)

    for name, kind in (("mkdir", "mkdir"), ("rmdir", "rmdir"), ("remove", "remove"), ("unlink", "remove"),
                       ("listdir", "listdir"), ("stat", "stat"), ("lstat", "stat")):
        wrap1(os, name, kind)
    real_scandir = os.scandir

    class _Scan:
        """a materialised os.scandir result: iterator + context manager (the directory is read in ONE step)"""

        def __init__(self, entries):
            self._it = iter(entries)

        def __iter__(self):
            return self._it

        def __next__(self):
            return next(self._it)

        def __enter__(self):
            return self

        def __exit__(self, *a):
            return False

        def close(self):
            pass

    def t_scandir(path="."):
        r = rel(path)
        if r is None:
            return real_scandir(path)

        def read():
            with real_scandir(path) as it:
                return list(it)
        # the same observation as os.listdir: one step that reads the directory
        return _Scan(_A.step("listdir", [r], read))
    os.scandir = t_scandir
    for name in ("isfile", "isdir", "exists", "islink"):
        wrap1(os.path, name, name)
    wrap2(os, "replace", "rename")
    wrap2(os, "rename", "rename")


def _actor_main(idx, fn, root, tx, rx):
    """Body of a forked actor: never returns."""
    code = 1
    try:
        signal.signal(signal.SIGINT, signal.SIG_DFL)
        try:
            import logging
            logging.disable(logging.CRITICAL)
        except Exception:
            pass
        devnull = os.open(os.devnull, os.O_WRONLY)
        os.dup2(devnull, 1)
        os.dup2(devnull, 2)
        _install(_Actor(idx, root, tx, rx))
        try:
            obs = fn()
            _A.inside = True
            _send(tx, ("exit", "ok", obs, ""))
            code = 0
        except BaseException as e:  # noqa: B902
            _A.inside = True
            _send(tx, ("exit", "exc:" + _exc_kind(e), getattr(e, "partial_obs", None),
                       traceback.format_exc()[-1200:]))
            code = 1
    except BaseException:  # noqa: B902
        code = 98
    finally:
        os._exit(code)


def _exc_kind(e):
    n = type(e).__name__
    if isinstance(e, OSError) and e.errno is not None and n in (
            "OSError", "FileNotFoundError", "FileExistsError", "PermissionError", "NotADirectoryError",
            "IsADirectoryError"):
        return "OSError(%s)" % errno.errorcode.get(e.errno, e.errno)
    return n


# ----------------------------------------------------------------------------
# scheduler side
# ----------------------------------------------------------------------------
class RunResult:
    """trace: [(actor, kind, [paths], result, payload)], result bytes for reads.
    exits: per actor dict(status='ok'|'exc:Name'|'killed', code=int, obs=..., tb=str).
    schedule: the effective list of granted actor indices.  error: None | 'timeout' | 'aborted'."""

    def __init__(self):
        self.trace, self.schedule, self.exits, self.error = [], [], {}, None
        self.pending_log = []  # pending steps {actor: (kind, paths)} before each grant

    def steps_of(self, a):
        return [t for t in self.trace if t[0] == a]


def run(actor_fns, chooser, root, timeout=20.0):
    """Fork one actor per function, let `chooser(pending, result)` pick who moves next.

    pending: {actor: (kind, [paths])} for every actor that is blocked before a step.
    chooser returns an actor index in pending, or None to abort the run (actors are killed)."""
    root = os.path.abspath(root)
    res = RunResult()
    n = len(actor_fns)
    pids, rfd, wfd = {}, {}, {}
    for i, fn in enumerate(actor_fns):
        c2p_r, c2p_w = os.pipe()
        p2c_r, p2c_w = os.pipe()
        sys.stdout.flush()
        sys.stderr.flush()
        pid = os.fork()
        if pid == 0:
            try:
                os.close(c2p_r)
                os.close(p2c_w)
                for fd in list(rfd.values()) + list(wfd.values()):
                    try:
                        os.close(fd)
                    except OSError:
                        pass
            except BaseException:  # noqa: B902
                os._exit(99)
            _actor_main(i, fn, root, c2p_w, p2c_r)
        os.close(c2p_w)
        os.close(p2c_r)
        pids[i], rfd[i], wfd[i] = pid, c2p_r, p2c_w
    pending, waiting = {}, set(range(n))
    deadline = time.time() + timeout

    def collect(a):
        """Read actor a's next message: a new pending step or its exit."""
        left = deadline - time.time()
        r, _, _ = select.select([rfd[a]], [], [], max(0.0, left))
        if not r:
            raise TimeoutError
        try:
            m = _recv(rfd[a])
        except EOFError:
            res.exits[a] = {"status": "killed", "obs": None, "tb": "actor died without a message"}
            return None
        return m

    try:
        for a in sorted(waiting):
            m = collect(a)
            if m is None:
                continue
            if m[0] == "step":
                pending[a] = (m[1], m[2])
            else:
                res.exits[a] = {"status": m[1], "obs": m[2], "tb": m[3]}
        while pending:
            res.pending_log.append(dict(pending))
            a = chooser(dict(pending), res)
            if a is None:
                res.error = "aborted"
                break
            if a not in pending:
                raise ValueError("chooser picked actor %r which is not pending" % (a,))
            kind, paths = pending.pop(a)
            _send(wfd[a], "go")
            m = collect(a)
            if m is None:
                res.trace.append((a, kind, paths, "DIED", None))
                res.schedule.append(a)
                continue
            assert m[0] == "done", m
            res.trace.append((a, kind, paths, m[1], m[2]))
            res.schedule.append(a)
            m = collect(a)
            if m is None:
                continue
            if m[0] == "step":
                pending[a] = (m[1], m[2])
            else:
                res.exits[a] = {"status": m[1], "obs": m[2], "tb": m[3]}
    except TimeoutError:
        res.error = "timeout"
    finally:
        for a in range(n):
            if a not in res.exits or res.error:
                try:
                    os.kill(pids[a], signal.SIGKILL)
                except OSError:
                    pass
            try:
                _, st = os.waitpid(pids[a], 0)
                code = os.waitstatus_to_exitcode(st)
            except ChildProcessError:
                code = -1
            res.exits.setdefault(a, {"status": "killed", "obs": None, "tb": ""})["code"] = code
            for fd in (rfd[a], wfd[a]):
                try:
                    os.close(fd)
                except OSError:
                    pass
    return res


def schedule_chooser(schedule):
    """Follow `schedule` (entries naming finished actors are skipped); afterwards the unfinished
    actors run to completion one after another in index order."""
    it = iter(schedule)

    def choose(pending, res):
        for a in it:
            if a in pending:
                return a
        return min(pending)
    return choose


def run_schedule(actor_fns, schedule, root, timeout=20.0):
    return run(actor_fns, schedule_chooser(schedule), root, timeout)


# ----------------------------------------------------------------------------
# independence and exhaustive exploration (sleep sets)
# ----------------------------------------------------------------------------
def _parent(p):
    d = os.path.dirname(p)
    return d if d else "."


def footprint(step):
    """(reads, writes, dir-listing reads, dir-listing writes) of a step, as sets of canonical paths.
    Creating / removing / renaming an entry writes the *listing* of its parent and reads the parent
    (it must exist); two listing-writes commute, a listing-write conflicts with `listdir` only."""
    kind, paths = step
    p = paths[0]
    if kind in ("isfile", "isdir", "exists", "islink", "stat", "read"):
        return {p}, set(), set(), set()
    if kind == "listdir":
        return {p}, set(), {p}, set()
    if kind in ("mkdir", "rmdir", "remove", "openw"):
        return {_parent(p)}, {p}, set(), {_parent(p)}
    if kind in ("write", "close"):
        return set(), {p}, set(), set()
    if kind == "rename":
        q = paths[1]
        return {_parent(p), _parent(q)}, {p, q}, set(), {_parent(p), _parent(q)}
    return {p}, {p}, {p}, {p}


def dependent(s1, s2):
    r1, w1, lr1, lw1 = footprint(s1)
    r2, w2, lr2, lw2 = footprint(s2)
    if w1 & (r2 | w2) or w2 & r1:
        return True
    if lw1 & lr2 or lw2 & lr1:
        return True
    return False


def explore(run_once, dep=dependent, limit=None, reduce=True, prefix=()):
    """Stateless depth-first exploration of all schedules.  `run_once(chooser)` must execute a FRESH
    run (fresh tree, fresh actors) and return its RunResult; it is called once per explored schedule.
    With reduce=True sleep sets prune schedules that differ from an explored one only by the order of
    independent adjacent steps (at most one complete schedule per Mazurkiewicz trace).  Yields
    (RunResult, complete: bool); runs that end sleep-blocked are yielded with complete=False.
    Stops after `limit` runs; `explore.last_stats` tells whether the space was exhausted.
    `prefix`: forced first choices (the subtree below that prefix is explored, starting with an empty
    sleep set, so the union over all prefixes of one length covers everything; this is how one
    exploration is spread over several worker processes)."""
    stats = {"runs": 0, "complete": 0, "blocked": 0, "exhausted": False, "nondeterministic": 0,
             "invalid_prefix": False}
    prefix = list(prefix)
    explore.last_stats = stats
    # frame: dict(pending={a: step}, sleep={a: step}, done=[a...], choice=a)
    stack = []
    first = True
    while first or stack:
        first = False
        if limit is not None and stats["runs"] >= limit:
            return
        depth = [0]
        blocked = [False]

        def chooser(pending, res):
            d = depth[0]
            if d < len(stack):
                fr = stack[d]
                if fr["pending"] != pending:
                    stats["nondeterministic"] += 1
                    fr["pending"] = pending
                depth[0] += 1
                return fr["choice"]
            # new territory: sleep set inherited from the previous frame
            if d == 0:
                sleep = {}
            else:
                prev = stack[d - 1]
                chosen_step = prev["pending"][prev["choice"]]
                sleep = {}
                if reduce:
                    cand = dict(prev["sleep"])
                    for b in prev["done"]:
                        if b != prev["choice"]:
                            cand[b] = prev["pending"][b]
                    for b, sb in cand.items():
                        if b in pending and pending[b] == sb and not dep(sb, chosen_step):
                            sleep[b] = sb
            if d < len(prefix):
                if prefix[d] not in pending:
                    stats["invalid_prefix"] = True
                    blocked[0] = True
                    return None
                fr = {"pending": pending, "sleep": {}, "done": [prefix[d]], "choice": prefix[d], "forced": True}
                stack.append(fr)
                depth[0] += 1
                return fr["choice"]
            avail = [a for a in sorted(pending) if a not in sleep]
            if not avail:
                blocked[0] = True
                return None
            fr = {"pending": pending, "sleep": sleep, "done": [avail[0]], "choice": avail[0]}
            stack.append(fr)
            depth[0] += 1
            return fr["choice"]

        res = run_once(chooser)
        stats["runs"] += 1
        if blocked[0]:
            stats["blocked"] += 1
            yield res, False
        else:
            stats["complete"] += 1
            yield res, True
        # backtrack: deepest frame with an unexplored, non-sleeping alternative
        while stack:
            fr = stack[-1]
            alts = [] if fr.get("forced") else [
                a for a in sorted(fr["pending"]) if a not in fr["sleep"] and a not in fr["done"]]
            if alts:
                fr["done"].append(alts[0])
                fr["choice"] = alts[0]
                break
            stack.pop()
    stats["exhausted"] = True


def count_interleavings(lengths):
    """Number of interleavings of sequences with the given lengths (multinomial coefficient)."""
    from math import factorial
    n = factorial(sum(lengths))
    for k in lengths:
        n //= factorial(k)
    return n

"""Shared by C02, C03, C04, C08, C09: operation sequences on real signac projects,
observation through fresh sessions, and the *plain in-memory reference model* used
as direct oracle (independent of the Lean model).

Operation vocabulary (JSON lists; h = handle name, p = project index):
  ["open", h, p, sp]            h := projects[p].open_job(sp)
  ["openid", h, p, id_or_prefix]   h := projects[p].open_job(id=...); statepoint loaded at once
  ["openid", h, p, id_or_prefix, "lazy"]   the same, state point NOT loaded: the next op through h is its first access
  ["init", h]
  ["dset", h, k, v] ["ddel", h, k] ["dclear", h] ["dreset", h, mapping]
  ["put", h, relpath, text]     job.init(); write a file below the job directory
  ["spbad", h, mapping]         h.statepoint = mapping with an invalid (dotted) key: must raise and change nothing
  ["badjob", h, sp, action]     in h's project: open_job(sp) with an invalid (dotted) key at some depth, then init / document
                                write / `with job:`: must raise and leave nothing behind (no empty job directory)
  ["putlink", h, name, target, text]   job.init(); symlink name -> ABSOLUTE path of the job's file `target` (content text)
  ["clear", h] ["reset", h] ["remove", h]
  ["spset", h, k, v] ["spdel", h, k] ["spnest", h, k, k2, v] ["spassign", h, sp]
  ["update", h, mapping, overwrite]
  ["move", h, p] ["clone", h, p, h2]
  ["ucache", p] ["rmcache", p] ["session", p]
  ["xinit", p, sp]              ANOTHER session (a Project object of its own) creates the job: open_job(sp).init()
  ["copy", h, h2] ["deepcopy", h, h2] ["pickle", h, h2] ["pickleproc", h, h2] ["drop", h]
  ["plant", p, name[, kind]]    create a foreign entry in the workspace (not via signac): a directory (default),
                                a regular "file" or a dangling symbolic "link" - the latter two possibly named like an id
"""
import copy
import hashlib
import json
import os
import pickle
import subprocess
import sys

from harness.core import REPO, exc_name, tagged

SP_FILE = "signac_statepoint.json"
DOC_FILE = "signac_job_document.json"


def ref_id(sp):
    return hashlib.md5(json.dumps(sp, sort_keys=True).encode()).hexdigest()


def plain(x):
    """Deep plain-Python copy of a (possibly synced / proxy) JSON value."""
    if hasattr(x, "items"):
        return {k: plain(v) for k, v in x.items()}
    if isinstance(x, (list, tuple)) or (hasattr(x, "__iter__") and not isinstance(x, (str, bytes))):
        return [plain(v) for v in x]
    return x


# ----------------------------------------------------------------------------
# the real thing
# ----------------------------------------------------------------------------
def _scribble(m):
    """mutate a caller-owned state point mapping in place, at every depth"""
    if isinstance(m, dict):
        for v in list(m.values()):
            _scribble(v)
        for key in list(m):
            if not isinstance(m[key], (dict, list)):
                m[key] = "scribbled"
        m["__scribbled__"] = 1
    elif isinstance(m, list):
        for v in m:
            _scribble(v)
        for i, v in enumerate(m):
            if not isinstance(v, (dict, list)):
                m[i] = "scribbled"
        m.append("scribbled")


class RealWorld:
    def __init__(self, ctx, nproj=2):
        import signac

        self.signac = signac
        self.ctx = ctx
        self.root = ctx.fresh_dir("ws")
        self.paths = []
        self.projects = []
        for i in range(nproj):
            d = os.path.join(self.root, "proj%d" % i)
            os.makedirs(d)
            self.paths.append(d)
            self.projects.append(signac.init_project(d))
        self.h = {}
        self.lazy = set()

    def close(self):
        self.ctx.cleanup(self.root)

    def apply(self, op):
        """Run one op; returns 'ok' / 'ok:<info>' or the exception kind."""
        try:
            if op[0] == "remove" and op[1] in self.lazy:
                # a handle that never loaded its state point cannot know it once the job is gone;
                # load it before removing so that the handle stays comparable with the reference
                try:
                    self.h[op[1]].statepoint()
                except Exception:  # noqa: BLE001
                    pass
            return self._apply(op) or "ok"
        except Exception as e:  # noqa: BLE001 - the kind is the observation
            return exc_name(e)
        finally:
            if op[0] != "openid":
                for x in op[1:3]:
                    if isinstance(x, str):
                        self.lazy.discard(x)

    def _apply(self, op):
        k = op[0]
        H, P = self.h, self.projects
        if k == "open":
            # the caller keeps and later mutates its own mapping (at every depth): a handle must not
            # alias it, whether or not the state point has been materialised yet
            mine = copy.deepcopy(op[3])
            H[op[1]] = P[op[2]].open_job(mine)
            _scribble(mine)
        elif k == "openid":
            H.pop(op[1], None)
            j = P[op[2]].open_job(id=op[3])
            if len(op) > 4 and op[4] == "lazy":
                # leave the state point unloaded: the next operation through this handle is its FIRST
                # state point access (handle_views does not look at the state point until then)
                self.lazy.add(op[1])
            else:
                j.statepoint()  # force the lazy load now
            H[op[1]] = j
            return "ok:" + j.id
        elif k == "init":
            H[op[1]].init()
        elif k == "dset":
            H[op[1]].doc[op[2]] = op[3]
        elif k == "ddel":
            del H[op[1]].doc[op[2]]
        elif k == "dclear":
            H[op[1]].doc.clear()
        elif k == "dreset":
            H[op[1]].doc = op[2]
        elif k == "spbad":
            # a whole state point assignment that must be REJECTED (a key with a dot): no effect at all
            H[op[1]].statepoint = op[2]
        elif k == "badjob":
            j = H[op[1]].project.open_job(copy.deepcopy(op[2]))
            if op[3] == "init":
                j.init()
            elif op[3] == "dset":
                j.doc["k"] = 1
            elif op[3] == "with":
                cwd = os.getcwd()
                try:
                    with j:
                        pass
                finally:
                    os.chdir(cwd)
            else:
                j.init(force=True)
        elif k == "putlink":
            # a symbolic link inside the job directory with an ABSOLUTE target inside the same directory
            # (e.g. latest.dat -> <job>/run_0003.dat); op[4] is the content of the target
            j = H[op[1]]
            j.init()
            os.symlink(j.fn(op[3]), j.fn(op[2]))
        elif k == "put":
            j = H[op[1]]
            j.init()
            fn = j.fn(op[2])
            os.makedirs(os.path.dirname(fn), exist_ok=True)
            with open(fn, "w") as f:
                f.write(op[3])
        elif k == "clear":
            H[op[1]].clear()
        elif k == "reset":
            H[op[1]].reset()
        elif k == "remove":
            H[op[1]].remove()
        elif k == "spset":
            H[op[1]].sp[op[2]] = op[3]
        elif k == "spdel":
            del H[op[1]].sp[op[2]]
        elif k == "spnest":
            H[op[1]].sp[op[2]][op[3]] = op[4]
        elif k == "spassign":
            H[op[1]].statepoint = op[2]
        elif k == "update":
            H[op[1]].update_statepoint(op[2], overwrite=op[3])
        elif k == "move":
            H[op[1]].move(P[op[2]])
        elif k == "clone":
            H.pop(op[3], None)
            H[op[3]] = P[op[2]].clone(H[op[1]])
        elif k == "ucache":
            r = P[op[1]].update_cache()
            return "ok:%s" % ("none" if r is None else r)
        elif k == "rmcache":
            try:
                os.remove(os.path.join(self.paths[op[1]], ".signac", "statepoint_cache.json.gz"))
            except FileNotFoundError:
                pass
        elif k == "session":
            P[op[1]] = self.signac.Project(self.paths[op[1]])
        elif k == "xinit":
            self.signac.Project(self.paths[op[1]]).open_job(copy.deepcopy(op[2])).init()
        elif k == "copy":
            H[op[2]] = copy.copy(H[op[1]])
        elif k == "deepcopy":
            H[op[2]] = copy.deepcopy(H[op[1]])
        elif k == "pickle":
            H[op[2]] = pickle.loads(pickle.dumps(H[op[1]]))
        elif k == "pickleproc":
            # unpickle in a freshly started interpreter, let it init() the job there, and
            # bring the handle back
            blob = pickle.dumps(H[op[1]])
            code = ("import sys,pickle; sys.path.insert(0,%r); j=pickle.loads(sys.stdin.buffer.read()); "
                    "j.init(); sys.stdout.buffer.write(pickle.dumps(j))" % REPO)
            r = subprocess.run([sys.executable, "-c", code], input=blob, capture_output=True)
            if r.returncode != 0:
                raise RuntimeError("child failed: " + r.stderr.decode()[-300:])
            H[op[2]] = pickle.loads(r.stdout)
        elif k == "drop":
            H.pop(op[1], None)
        elif k == "plant":
            target = os.path.join(self.paths[op[1]], "workspace", op[2])
            kind = op[3] if len(op) > 3 else "dir"
            os.makedirs(os.path.dirname(target), exist_ok=True)
            if kind == "dir":
                os.makedirs(target, exist_ok=True)
            elif kind == "file" and not os.path.lexists(target):
                with open(target, "w") as f:
                    f.write("not a job\n")
            elif kind == "link" and not os.path.lexists(target):
                os.symlink(os.path.join(self.paths[op[1]], "nowhere", op[2]), target)  # dangling
        else:
            raise ValueError("unknown op %r" % (op,))

    # -------- observations through a fresh session (and the raw tree) --------
    def observe(self):
        """Per project: what a fresh Project sees and what is literally on disk."""
        out = []
        for path in self.paths:
            out.append(observe_project(self.signac, path))
        return out

    def handle_views(self):
        """What each live handle claims: id, statepoint, cached statepoint, project index."""
        views = {}
        for name, j in sorted(self.h.items()):
            v = {}
            try:
                v["id"] = j.id
                v["proj"] = self.paths.index(j.project.path) if j.project.path in self.paths else -1
                if name in self.lazy:
                    v["lazy"] = True
                    views[name] = v
                    continue
                v["sp"] = plain(j.statepoint())
                v["cached"] = plain(dict(j.cached_statepoint))
                v["path_ok"] = os.path.basename(j.path) == j.id and os.path.dirname(j.path) == j.project.workspace
            except Exception as e:  # noqa: BLE001
                v["error"] = exc_name(e)
            views[name] = v
        return views


def read_job_dir(wd):
    """Raw content of one job directory (no signac code): sp, doc, files."""
    sp = doc = None
    sp_raw = None
    files = {}
    for dp, dns, fns in os.walk(wd):
        dns.sort()
        for fn in sorted(fns):
            full = os.path.join(dp, fn)
            rel = os.path.relpath(full, wd)
            if os.path.islink(full) and not os.path.realpath(full).startswith(os.path.realpath(wd) + os.sep):
                # a job's data must live in the job's own directory
                files[rel] = "<symbolic link leaving the job directory: %s>" % os.path.relpath(
                    os.path.realpath(full), os.path.dirname(os.path.realpath(wd)))
                continue
            if os.path.islink(full) and not os.path.exists(full):
                files[rel] = "<dangling symbolic link>"
                continue
            with open(full, "rb") as f:
                data = f.read()
            if rel == SP_FILE:
                sp_raw = data
                try:
                    sp = json.loads(data.decode())
                except Exception:  # noqa: BLE001
                    sp = "<unparsable>"
            elif rel == DOC_FILE:
                try:
                    doc = json.loads(data.decode())
                except Exception:  # noqa: BLE001
                    doc = "<unparsable>"
            else:
                files[rel] = data.decode("utf-8", "replace")
    return sp, doc, files, sp_raw


def observe_project(signac, path):
    ws = os.path.join(path, "workspace")
    o = {"jobs": {}, "leftovers": [], "foreign": []}
    names = sorted(os.listdir(ws)) if os.path.isdir(ws) else []
    for name in names:
        wd = os.path.join(ws, name)
        sp, doc, files, _ = read_job_dir(wd)
        for rel in list(files):
            base = os.path.basename(rel)
            if base.endswith("~") or base.startswith("._"):
                o["leftovers"].append(name + "/" + rel)
        entry = {"sp": tagged(sp) if sp is not None else None, "doc": tagged(doc or {}), "files": files,
                 "raw": {"sp": sp, "doc": doc or {}, "files": files}}
        is_id = len(name) == 32 and all(c in "0123456789abcdef" for c in name)
        if is_id and os.path.isdir(wd):   # only id-named DIRECTORIES are jobs (a file or a dangling link is not)
            o["jobs"][name] = entry
        else:
            o["foreign"].append(name)
    for fn in (os.listdir(os.path.join(path, ".signac")) if os.path.isdir(os.path.join(path, ".signac")) else []):
        if fn.endswith("~") or fn.startswith("._"):
            o["leftovers"].append(".signac/" + fn)
    # the API view of a fresh session
    api = {}
    try:
        pr = signac.Project(path)
        try:
            pr.check()
            api["check"] = "ok"
        except Exception as e:  # noqa: BLE001
            api["check"] = exc_name(e) + ":" + ",".join(sorted(getattr(e, "job_ids", [])))
        api["len"] = len(pr)
        try:
            api["iter"] = sorted(j.id for j in pr)
            api["find_len"] = len(pr.find_jobs())
            sps = {}
            for j in pr:
                try:
                    sps[j.id] = tagged(plain(j.statepoint()))
                except Exception as e:  # noqa: BLE001
                    sps[j.id] = "EXC:" + exc_name(e)
            api["sps"] = sps
            api["docs"] = {j.id: tagged(plain(j.doc())) for j in pr if os.path.isdir(j.path)}
            api["contains"] = all(j in pr for j in pr)
        except Exception as e:  # noqa: BLE001
            api["iter_error"] = exc_name(e)
    except Exception as e:  # noqa: BLE001
        api["project_error"] = exc_name(e)
    o["api"] = api
    return o


# ----------------------------------------------------------------------------
# the plain reference model (direct oracle for C03 / C04)
# ----------------------------------------------------------------------------
_FAIL = object()


def dep_update(old, new):
    """What synced_collections' `_update` (used by reset / whole assignment / update_statepoint) leaves in
    memory: entries whose new value compares `==` to the existing one are skipped, nested collections are
    updated recursively.  Differs from plain assignment only when a value changes type but not `==`-value
    (1 -> 1.0 -> True): finding F-4b, a defect of the dependency."""
    if new is None and isinstance(old, (dict, list)):
        return old  # `_update(None)` means "no data": a nested collection is left as it is
    if isinstance(old, dict) and isinstance(new, dict):
        out = {}
        for k, nv in new.items():
            if k not in old:
                out[k] = copy.deepcopy(nv)
            elif nv == old[k]:
                out[k] = old[k]
            elif isinstance(old[k], (dict, list)):
                r = dep_update(old[k], nv)
                out[k] = copy.deepcopy(nv) if r is _FAIL else r
            else:
                out[k] = copy.deepcopy(nv)
        return out
    if isinstance(old, list) and isinstance(new, list):
        out = []
        for i in range(min(len(old), len(new))):
            if new[i] == old[i]:
                out.append(old[i])
            elif isinstance(old[i], (dict, list)):
                r = dep_update(old[i], new[i])
                out.append(copy.deepcopy(new[i]) if r is _FAIL else r)
            else:
                out.append(copy.deepcopy(new[i]))
        out.extend(copy.deepcopy(new[len(old):]))
        return out
    return _FAIL


class PlainModel:
    """Projects are dicts id -> {sp, doc, files}; a handle is (project, state point, group).
    Shallow copies share a group and follow state point changes of the group."""

    def __init__(self, nproj=2):
        self.projects = [dict() for _ in range(nproj)]
        self.foreign = [set() for _ in range(nproj)]
        self.foreign_files = [set() for _ in range(nproj)]   # planted non-directories (files, dangling links)
        self.h = {}
        self.next_group = 0
        self.known = []  # known-finding classes hit by the last op (strict spec differs from real dependency)
        self.gsize = {}  # group -> number of job objects ever attached to its shared state point object

    def _new(self, p, sp):
        self.next_group += 1
        self.gsize[self.next_group] = 1
        return {"p": p, "sp": copy.deepcopy(sp), "g": self.next_group}

    def _job(self, h):
        hd = self.h[h]
        return self.projects[hd["p"]].get(ref_id(hd["sp"]))

    def _ensure(self, h):
        hd = self.h[h]
        jid = ref_id(hd["sp"])
        self.projects[hd["p"]].setdefault(jid, {"sp": copy.deepcopy(hd["sp"]), "doc": {}, "files": {}})
        return self.projects[hd["p"]][jid]

    def _rekey(self, h, new_sp):
        hd = self.h[h]
        proj = self.projects[hd["p"]]
        old, new = ref_id(hd["sp"]), ref_id(new_sp)
        if old == new:
            return "ok"
        if old in proj:
            if new in proj:
                return "DestinationExistsError"
            if new in self.foreign_files[hd["p"]]:
                # a file (or dangling link) occupies the name of the new id: the directory cannot be renamed onto
                # it; the operation fails with an OSError and NOTHING changes (rollback)
                return "OSError"
            job = proj.pop(old)
            job["sp"] = copy.deepcopy(new_sp)
            proj[new] = job
        for o in self.h.values():
            if o["g"] == hd["g"]:
                o["sp"] = copy.deepcopy(new_sp)
        return "ok"

    def apply(self, op):
        k = op[0]
        H = self.h
        self.known = []
        if k == "open":
            H[op[1]] = self._new(op[2], op[3])
            return "ok"
        if k == "openid":
            H.pop(op[1], None)
            proj = self.projects[op[2]]
            matches = [i for i in proj if i.startswith(op[3])] if len(op[3]) < 32 else ([op[3]] if op[3] in proj else [])
            if len(matches) == 1:
                H[op[1]] = self._new(op[2], proj[matches[0]]["sp"])
                return "ok:" + matches[0]
            if len(matches) > 1:
                return "LookupError"
            return "KeyError"
        if k == "init":
            self._ensure(op[1])
            return "ok"
        if k == "dset":
            self._ensure(op[1])["doc"][op[2]] = copy.deepcopy(op[3])
            return "ok"
        if k == "ddel":
            d = self._ensure(op[1])["doc"]
            if op[2] not in d:
                return "KeyError"
            del d[op[2]]
            return "ok"
        if k == "dclear":
            self._ensure(op[1])["doc"].clear()
            return "ok"
        if k == "dreset":
            # whole-document assignment; the generators of C03/C04 keep away from values on which the
            # dependency's `_update` differs from assignment (None, type-only changes) - C05 covers those
            self._ensure(op[1])["doc"] = copy.deepcopy(op[2])
            return "ok"
        if k == "put":
            self._ensure(op[1])["files"][op[2]] = op[3]
            return "ok"
        if k == "putlink":
            self._ensure(op[1])["files"][op[2]] = op[4]
            return "ok"
        if k in ("spbad", "badjob"):
            return "InvalidKeyError"
        if k == "clear":
            j = self._job(op[1])
            if j is not None:
                j["files"].clear()
                j["doc"] = {}
            return "ok"
        if k == "reset":
            j = self._job(op[1])
            if j is not None:
                j["files"].clear()
                j["doc"] = {}
            self._ensure(op[1])
            return "ok"
        if k == "remove":
            hd = H[op[1]]
            self.projects[hd["p"]].pop(ref_id(hd["sp"]), None)
            return "ok"
        if k in ("spset", "spdel", "spnest", "spassign", "update"):
            sp = copy.deepcopy(H[op[1]]["sp"])
            if k == "spset":
                sp[op[2]] = op[3]
            elif k == "spdel":
                if op[2] not in sp:
                    return "KeyError"
                del sp[op[2]]
            elif k == "spnest":
                if op[2] not in sp:
                    return "KeyError"
                if not isinstance(sp[op[2]], dict):
                    return "TypeError"
                sp[op[2]][op[3]] = op[4]
            elif k == "spassign":
                sp = dep_update(H[op[1]]["sp"], op[2])
                if tagged(sp) != tagged(op[2]):
                    self.known.append("F-4b")
            else:
                if not op[3]:
                    for kk, vv in op[2].items():
                        if kk in sp and sp[kk] != vv:
                            return "KeyError"
                sp.update(copy.deepcopy(op[2]))
                eff = dep_update(H[op[1]]["sp"], sp)
                if tagged(eff) != tagged(sp):
                    self.known.append("F-4b")
                sp = eff
            return self._rekey(op[1], sp)
        if k == "move":
            hd = H[op[1]]
            src, dst = self.projects[hd["p"]], self.projects[op[2]]
            jid = ref_id(hd["sp"])
            if jid not in src:
                return "RuntimeError"
            if hd["p"] == op[2]:
                # rename onto itself; the handle still re-binds to a fresh state point object
                self.gsize[hd["g"]] -= 1
                self.next_group += 1
                self.gsize[self.next_group] = 1
                hd["g"] = self.next_group
                return "ok"
            if jid in dst:
                return "DestinationExistsError"
            dst[jid] = src.pop(jid)
            self.gsize[hd["g"]] -= 1
            self.next_group += 1
            self.gsize[self.next_group] = 1
            hd["p"], hd["g"] = op[2], self.next_group
            return "ok"
        if k == "clone":
            H.pop(op[3], None)
            hd = H[op[1]]
            src, dst = self.projects[hd["p"]], self.projects[op[2]]
            jid = ref_id(hd["sp"])
            if jid in dst:
                return "DestinationExistsError"
            if jid not in src:
                return "ValueError"
            dst[jid] = copy.deepcopy(src[jid])
            H[op[3]] = self._new(op[2], hd["sp"])
            return "ok"
        if k in ("ucache", "rmcache", "session"):
            return "ok"
        if k == "xinit":
            self.projects[op[1]].setdefault(ref_id(op[2]), {"sp": copy.deepcopy(op[2]), "doc": {}, "files": {}})
            return "ok"
        if k == "copy":
            H[op[2]] = dict(H[op[1]], sp=copy.deepcopy(H[op[1]]["sp"]))
            self.gsize[H[op[1]]["g"]] += 1
            return "ok"
        if k in ("pickle", "pickleproc") and self.gsize[H[op[1]]["g"]] >= 2:
            # F-3c: a handle sharing its state point object with a shallow copy cannot be unpickled
            self.known.append("F-3c")
            H.pop(op[2], None)
            return "RecursionError"
        if k in ("deepcopy", "pickle"):
            H[op[2]] = self._new(H[op[1]]["p"], H[op[1]]["sp"])
            if k == "deepcopy":
                # the deep copy's state point object holds deep copies of all job objects of the group
                self.gsize[H[op[2]]["g"]] = self.gsize[H[op[1]]["g"]]
            return "ok"
        if k == "pickleproc":
            H[op[2]] = self._new(H[op[1]]["p"], H[op[1]]["sp"])
            self._ensure(op[2])
            return "ok"
        if k == "drop":
            H.pop(op[1], None)
            return "ok"
        if k == "plant":
            self.foreign[op[1]].add(op[2])
            if len(op) > 3 and op[3] in ("file", "link"):
                self.foreign_files[op[1]].add(op[2])
            return "ok"
        raise ValueError(op)

    def expected_jobs(self, p):
        return {jid: {"sp": tagged(j["sp"]), "doc": tagged(j["doc"]), "files": dict(j["files"]),
                      "raw": {"sp": j["sp"], "doc": j["doc"], "files": dict(j["files"])}}
                for jid, j in self.projects[p].items()}


# ----------------------------------------------------------------------------
# generators
# ----------------------------------------------------------------------------
SP_KEYS = ["a", "b", "c", "d"]
SP_VALS = [0, 1, "x", 1.0, True, None, [1, 2], {"n": 0}, {"n": 1}]
SP_VALS_PLAIN = [0, 1, "x"]
DOC_KEYS = ["k", "m"]
DOC_VALS = [0, "s", [1], {"q": 1}, 2.5]  # no None: the dependency ignores None over a nested collection on load (C05, F-5d)
# user files; two have names that look like temp / backup files (`._<x>_<name>`, `<name>~`) but are data
FILES = ["f.txt", "g.dat", "sub/h.txt", "._run_0.log", "sub/notes.txt~"]
FOREIGN = ["tmp", "x" * 31, "0" * 33, "ABCDEF0123456789ABCDEF0123456789"]


def gen_sp(rng, rich=False):
    if rng.random() < 0.04:
        return {}                     # the empty state point
    vals = SP_VALS if rich else SP_VALS_PLAIN
    n = rng.choice([1, 1, 2, 2, 3])
    keys = rng.sample(SP_KEYS, n)
    return {k: copy.deepcopy(rng.choice(vals)) for k in keys}


def gen_ops(rng, length, nproj=2, rich=False, weights=None, allow_plant=False):
    """Random op sequence; tracks which handle names are defined so ops are mostly valid."""
    ops = []
    handles = []  # names
    vals = SP_VALS if rich else SP_VALS_PLAIN
    nh = 0

    def newh():
        nonlocal nh
        nh += 1
        return "h%d" % nh

    W = {"open": 10, "init": 10, "doc": 8, "put": 6, "clear": 2, "reset": 2, "remove": 4, "spset": 8,
         "spdel": 4, "spassign": 4, "update": 5, "spnest": 2, "move": 3, "clone": 3, "cache": 4,
         "session": 3, "copies": 5, "drop": 2, "openid": 4, "plant": 1 if allow_plant else 0}
    if weights:
        W.update(weights)
    kinds = [k for k, w in W.items() for _ in range(w)]
    known_sps = []
    while len(ops) < length:
        k = rng.choice(kinds)
        if not handles and k not in ("open", "cache", "session", "plant"):
            k = "open"
        if k == "open":
            h = newh()
            sp = gen_sp(rng, rich) if (not known_sps or rng.random() < 0.6) else copy.deepcopy(rng.choice(known_sps))
            known_sps.append(sp)
            ops.append(["open", h, rng.randrange(nproj), sp])
            handles.append(h)
        elif k == "openid":
            h = newh()
            sp = rng.choice(known_sps)
            jid = ref_id(sp)
            n = rng.choice([32, 32, 1, 2, 3, 8])
            ops.append(["openid", h, rng.randrange(nproj), jid[:n]] + (["lazy"] if rng.random() < 0.4 else []))
            handles.append(h)
        elif k == "init":
            ops.append(["init", rng.choice(handles)])
        elif k == "doc":
            h = rng.choice(handles)
            r = rng.random()
            if r < 0.6:
                ops.append(["dset", h, rng.choice(DOC_KEYS), copy.deepcopy(rng.choice(DOC_VALS))])
            elif r < 0.75:
                ops.append(["ddel", h, rng.choice(DOC_KEYS)])
            elif r < 0.85:
                ops.append(["dclear", h])
            else:
                ops.append(["dreset", h, {rng.choice(DOC_KEYS): copy.deepcopy(rng.choice(DOC_VALS))}])
        elif k == "put":
            if rng.random() < 0.15:
                bad = gen_sp(rng, rich)
                bad[rng.choice(["b.c", "x.", ".y"])] = rng.choice([1, "v"])
                # the invalid key last, first or in the middle: whatever was applied before it must be undone
                items = list(bad.items())
                rng.shuffle(items)
                if rng.random() < 0.5:
                    ops.append(["spbad", rng.choice(handles), dict(items)])
                else:
                    if rng.random() < 0.4:   # the invalid key inside a nested mapping
                        items = [("n", {"ok": 1, rng.choice(["b.c", ".y"]): 2})] + [kv for kv in items if "." not in kv[0]]
                    ops.append(["badjob", rng.choice(handles), dict(items), rng.choice(["init", "dset", "with", "force"])])
            else:
                ops.append(["put", rng.choice(handles), rng.choice(FILES), rng.choice(["", "A", "BB"])])
        elif k in ("clear", "reset", "remove"):
            ops.append([k, rng.choice(handles)])
        elif k == "spset":
            ops.append(["spset", rng.choice(handles), rng.choice(SP_KEYS), copy.deepcopy(rng.choice(vals))])
        elif k == "spdel":
            ops.append(["spdel", rng.choice(handles), rng.choice(SP_KEYS)])
        elif k == "spnest":
            ops.append(["spnest", rng.choice(handles), rng.choice(SP_KEYS), "n", rng.choice([0, 1, 2])])
        elif k == "spassign":
            sp = gen_sp(rng, rich) if rng.random() < 0.6 else copy.deepcopy(rng.choice(known_sps))
            known_sps.append(sp)
            ops.append(["spassign", rng.choice(handles), sp])
        elif k == "update":
            upd = {rng.choice(SP_KEYS): copy.deepcopy(rng.choice(vals))}
            ops.append(["update", rng.choice(handles), upd, rng.random() < 0.4])
        elif k == "move":
            ops.append(["move", rng.choice(handles), rng.randrange(nproj)])
        elif k == "clone":
            h2 = newh()
            ops.append(["clone", rng.choice(handles), rng.randrange(nproj), h2])
            handles.append(h2)  # may stay undefined if the clone fails; executors tolerate that
        elif k == "cache":
            ops.append([rng.choice(["ucache", "ucache", "rmcache"]), rng.randrange(nproj)])
        elif k == "session":
            if rng.random() < 0.5:
                ops.append(["session", rng.randrange(nproj)])
            else:
                # another session creates a job this session may have looked for (and not found) before
                sp = copy.deepcopy(rng.choice(known_sps)) if known_sps and rng.random() < 0.7 else gen_sp(rng, rich)
                known_sps.append(sp)
                p_ = rng.randrange(nproj)
                if rng.random() < 0.6:
                    ops.append(["openid", newh(), p_, ref_id(sp)])     # full id, most likely unknown yet
                ops.append(["xinit", p_, sp])
                h2 = newh()
                ops.append(["openid", h2, p_, ref_id(sp)] + (["lazy"] if rng.random() < 0.3 else []))
                handles.append(h2)
        elif k == "copies":
            h2 = newh()
            ops.append([rng.choice(["copy", "copy", "deepcopy", "pickle"]), rng.choice(handles), h2])
            handles.append(h2)
        elif k == "drop":
            h = rng.choice(handles)
            handles.remove(h)
            ops.append(["drop", h])
        elif k == "plant":
            if rng.random() < 0.5:
                ops.append(["plant", rng.randrange(nproj), rng.choice(FOREIGN)])
            else:  # an entry named exactly like an id that is not a directory
                ops.append(["plant", rng.randrange(nproj)] + rng.choice([["0" * 32, "file"], ["1" * 32, "link"], ["ab" * 16, "file"]]))
    return ops


# ----------------------------------------------------------------------------
# lock-step execution: real signac vs the plain reference model
# ----------------------------------------------------------------------------
KNOWN_TEXT = {
    "F-4b": "a value that changes type but compares equal (1 / 1.0 / True), or None over a nested list/mapping, is "
            "not assigned by whole-mapping assignment (dependency's _update skips == values and treats None as "
            "'no data')",
    "F-3d": "a whole state point assignment through a handle whose job was re-keyed through an unrelated handle "
            "raises KeyError from the dependency's per-file lock registry after the in-memory state point was "
            "already replaced: the handle keeps the old id with the new state point (a later init() through it "
            "would write a corrupt job directory)",
    "F-5c": "a document object whose file vanished (job removed / moved / re-keyed through another handle) keeps "
            "its in-memory data; after the job is re-created through the same handle, document operations act on "
            "the stale data (dependency: loading a missing file leaves the in-memory collection unchanged)",
    "F-3c": "pickle round trip of a handle that shares its state point object with a shallow copy raises "
            "RecursionError while unpickling (Job.__setstate__ runs before the shared object is restored)",
}
MUTATING_OTHERS = ("remove", "spset", "spdel", "spnest", "spassign", "update", "move")


def _noraw(jobs):
    return {j: {k: v for k, v in e.items() if k != "raw"} for j, e in jobs.items()}


def model_op(op, cached=None):
    """Serialise one op for lean/Drv/Ws.lean."""
    from harness.core import enc_val, hx

    k = op[0]
    S = lambda x: "S" + hx(x)  # noqa: E731
    if k == "open":
        return "open %s %d %s" % (op[1], op[2], enc_val(op[3]))
    if k == "openid":
        return "openid %s %d %s %s" % (op[1], op[2], S(op[3]), "-" if cached is None else enc_val(cached))
    if k in ("init", "dclear", "clear", "reset", "remove", "drop"):
        return "%s %s" % (k, op[1])
    if k == "dset":
        return "dset %s %s %s" % (op[1], S(op[2]), enc_val(op[3]))
    if k == "ddel":
        return "ddel %s %s" % (op[1], S(op[2]))
    if k == "dreset":
        return "dreset %s %s" % (op[1], enc_val(op[2]))
    if k == "put":
        return "put %s %s %s" % (op[1], S(op[2]), S(op[3]))
    if k in ("spbad", "badjob"):    # for the model: an operation refused with KeyError and no effect (deleting a key nobody has)
        return "spdel %s %s" % (op[1], S("\u0001no such key"))
    if k == "putlink":  # for the model a link is the content it resolves to
        return "put %s %s %s" % (op[1], S(op[2]), S(op[4]))
    if k == "spset":
        return "spset %s %s %s" % (op[1], S(op[2]), enc_val(op[3]))
    if k == "spdel":
        return "spdel %s %s" % (op[1], S(op[2]))
    if k == "spnest":
        return "spnest %s %s %s %s" % (op[1], S(op[2]), S(op[3]), enc_val(op[4]))
    if k == "spassign":
        return "spassign %s %s" % (op[1], enc_val(op[2]))
    if k == "update":
        return "update %s %s %s" % (op[1], "T" if op[3] else "F", enc_val(op[2]))
    if k == "move":
        return "move %s %d" % (op[1], op[2])
    if k == "clone":
        return "clone %s %d %s" % (op[1], op[2], op[3])
    if k in ("ucache", "rmcache", "session"):
        return "%s %d" % (k, op[1])
    if k == "xinit":
        return "xinit %d %s" % (op[1], enc_val(op[2]))
    if k in ("copy", "deepcopy", "pickle", "pickleproc"):
        return "%s %s %s" % ("pickle" if k == "pickleproc" else k, op[1], op[2])
    if k == "plant":
        return "plant %d %s" % (op[1], S(op[2]))
    raise ValueError(op)


def _valid(op, pm):
    """Is the op applicable (its handle operands are defined)?"""
    k = op[0]
    if k in ("open", "openid", "ucache", "rmcache", "session", "plant", "drop", "xinit"):
        return True
    if k == "putlink" and op[1] in pm.h:
        # the link's target must be a file of the job with the stated content (a shrunk history may have lost it)
        j = pm._job(op[1])
        return j is not None and j["files"].get(op[3]) == op[4]
    return op[1] in pm.h


def lockstep(ops, ctx, nproj=2, check_handles=True, stop_at_first=True):
    """Run ops on the real code and on PlainModel; returns (records, failures).
    records[i] = dict(op, real, model, skipped, obs) ; failures = list of strings (oracle verdict)."""
    rw = RealWorld(ctx, nproj)
    pm = PlainModel(nproj)
    stale = set()      # handles whose job was removed / moved / re-keyed through another group
    tainted = set()    # handles inside a known-finding class (see known_class in the plug-ins)
    doc_touched = set()  # handles whose document object has been created
    doc_tainted = set()  # ... and whose job directory vanished and was re-created meanwhile (F-5c)
    doc_obj = {}         # handle -> identity of its document OBJECT (shallow copies made afterwards share it)
    doc_clean = set()    # handles whose document object was emptied by the very remove() that made them stale
    records, failures = [], []
    ever = [set() for _ in range(nproj)]   # ids that existed in project p at some point of the history
    prev_obs = rw.observe()
    try:
        for i, op in enumerate(ops):
            for p_ in range(nproj):
                ever[p_] |= set(pm.projects[p_])
            if not _valid(op, pm):
                records.append({"op": op, "skipped": "undefined-operand"})
                continue
            if op[0] not in ("open", "openid", "ucache", "rmcache", "session", "plant", "xinit") and op[1] in tainted:
                # beyond a recorded finding (F-3d): the handle is inconsistent, nothing is claimed about its use
                records.append({"op": op, "skipped": "tainted-handle"})
                if op[0] == "drop":
                    rw.h.pop(op[1], None)
                    pm.h.pop(op[1], None)
                continue
            k = op[0]
            if k in ("dset", "ddel", "dclear", "dreset", "clear", "reset") and (
                    op[1] in doc_tainted or (op[1] in stale and op[1] in doc_touched and op[1] not in doc_clean)):
                failures.append("KNOWN[F-5c] step %d %s: %s" % (i, json.dumps(op), KNOWN_TEXT["F-5c"]))
                records.append({"op": op, "skipped": "doc-tainted-handle"})
                continue
            # which (project, id) does this op act on, and through which group?
            pre = copy.deepcopy(pm.h.get(op[1])) if k not in ("open", "openid", "ucache", "rmcache", "session", "plant", "drop", "xinit") else None
            if k in ("dset", "ddel", "dclear", "dreset", "clear", "reset"):
                doc_touched.add(op[1])  # even a refused document operation leaves data in the document object
                doc_obj.setdefault(op[1], len(doc_obj) + 1000 * i)
            if k in ("spassign", "update") and op[1] in rw.lazy and pre is not None:
                # A whole assignment as the FIRST state point access replaces an empty collection, so it is
                # exact; through a loaded handle the dependency keeps ==-equal values (finding F-4b).  Where
                # the two differ the handle is loaded first, so that the case stays inside the recorded class.
                want = copy.deepcopy(op[2]) if k == "spassign" else dict(copy.deepcopy(pre["sp"]), **copy.deepcopy(op[2]))
                if tagged(dep_update(pre["sp"], want)) != tagged(want):
                    try:
                        rw.h[op[1]].statepoint()
                    except Exception:  # noqa: BLE001
                        pass
                    rw.lazy.discard(op[1])
            real = rw.apply(op)
            obs = rw.observe()
            rec = {"op": op, "real": real}
            is_stale = pre is not None and op[1] in stale
            if is_stale and not real.startswith("ok") and [_noraw(o["jobs"]) for o in obs] == [_noraw(o["jobs"]) for o in prev_obs]:
                # a stale handle may refuse to act; nothing changed on disk => no-op of the reference
                rec["model"] = "stale-refused"
                records.append(rec)
                try:
                    j = rw.h.get(op[1])
                    inconsistent = j is not None and ref_id(plain(j.statepoint())) != j.id
                except Exception:  # noqa: BLE001
                    inconsistent = True
                if inconsistent and k in ("spassign", "update") and real == "KeyError":
                    for name, hd in pm.h.items():
                        if hd["g"] == pm.h[op[1]]["g"]:
                            tainted.add(name)
                    failures.append("KNOWN[F-3d] step %d %s: %s" % (i, json.dumps(op), KNOWN_TEXT["F-3d"]))
                if k == "clone":
                    rw.h.pop(op[3], None)
                    pm.h.pop(op[3], None)
                prev_obs = obs
                continue
            # reference result
            pm_before = copy.deepcopy(pm.projects)
            model = pm.apply(op)
            for p_ in range(nproj):
                ever[p_] |= set(pm_before[p_])
            if k in ("spset", "spdel", "spnest", "spassign", "update") and op[1] in pm.h:
                # a state point assigned through a handle is registered in the session cache under its id even
                # if the job is not initialised (the cache is a superset of the jobs the session has dealt with)
                ever[pm.h[op[1]]["p"]].add(ref_id(pm.h[op[1]]["sp"]))
                if k in ("spassign", "update"):
                    want_ = copy.deepcopy(op[2]) if k == "spassign" else None
                    if want_ is not None:
                        ever[pm.h[op[1]]["p"]].add(ref_id(want_))
            m_first = model
            if k == "openid" and real.startswith("ok") and model == "KeyError" and rw.h[op[1]].id in ever[op[2]]:
                # documented: the session cache may still know the state point of a REMOVED job (one that
                # existed in this project earlier in the history) - never that of a job that was only opened
                j = rw.h[op[1]]
                rw.lazy.discard(op[1])
                sp = plain(j.statepoint())
                if ref_id(sp) == j.id and j.id.startswith(op[3]):
                    pm.h[op[1]] = pm._new(op[2], sp)
                    model = real
            if k == "clone" and {real, model} == {"ValueError", "DestinationExistsError"}:
                hd = pm.h[op[1]]
                jid = ref_id(hd["sp"])
                if jid not in pm_before[hd["p"]] and jid in pm_before[op[2]]:
                    model = real  # both preconditions fail; either error is fine
            rec["model"] = model
            m0_before_fix = m_first
            for kf in pm.known:
                failures.append("KNOWN[%s] step %d %s: %s" % (kf, i, json.dumps(op), KNOWN_TEXT[kf]))
            r0, m0 = real.split(":")[0], model.split(":")[0]
            if k == "openid":
                r0, m0 = real, model
            blocked = (model == "OSError")
            if blocked and r0.startswith("OSError("):
                r0 = "OSError"
            if r0 != m0:
                failures.append("step %d %s: signac %s, reference model %s" % (i, json.dumps(op), real, model))
            # a failed op must leave the handle table of the reference consistent with the real one
            if not real.startswith("ok"):
                if k in ("openid", "clone", "pickle", "pickleproc", "copy", "deepcopy"):
                    name = op[1] if k == "openid" else (op[3] if k == "clone" else op[2])
                    rw.h.pop(name, None)
                    pm.h.pop(name, None)
            # staleness bookkeeping: other groups acting on the same job
            if pre is not None and k in MUTATING_OTHERS and real.startswith("ok"):
                old = (pre["p"], ref_id(pre["sp"]))
                for name, hd in pm.h.items():
                    if name != op[1] and (hd["g"] != pre["g"] or k == "remove") and (hd["p"], ref_id(hd["sp"])) == old:
                        stale.add(name)
                        doc_clean.discard(name)
                        if k == "remove" and old[1] in pm_before[old[0]] and doc_obj.get(op[1]) is not None \
                                and doc_obj.get(name) == doc_obj[op[1]]:
                            # remove() of an EXISTING job empties the document object of the removing handle; a
                            # shallow copy that shares that object holds no stale data (outside the class of F-5c).
                            # remove() of a job that is not there (stale handle) empties nothing.
                            doc_clean.add(name)
                # Job._initialize_lazy_properties: a re-key drops the document object of every job of the group, a
                # move that of the moving handle, a remove that of the removing handle (the next use builds a new one)
                if k == "move" or (k == "remove" and old[1] in pm_before[old[0]]):
                    doc_obj.pop(op[1], None)
                    doc_touched.discard(op[1])
                elif (pre["p"], ref_id(pre["sp"])) != (pm.h[op[1]]["p"], ref_id(pm.h[op[1]]["sp"])) if op[1] in pm.h else False:
                    for name, hd in pm.h.items():
                        if hd["g"] == pre["g"]:
                            doc_obj.pop(name, None)
                            doc_touched.discard(name)
                cur = pm.h.get(op[1])
                if cur is not None and (cur["p"], ref_id(cur["sp"])) != old:
                    # peers of the group that did not follow a move are stale as well
                    for name, hd in pm.h.items():
                        if name != op[1] and (hd["p"], ref_id(hd["sp"])) == old:
                            stale.add(name)
            if k in ("init", "dset", "dreset", "dclear", "put", "putlink", "reset") and real.startswith("ok"):
                if op[1] in stale and op[1] in doc_touched and op[1] not in doc_clean:
                    doc_tainted.add(op[1])
                stale.discard(op[1])
            if k in ("dset", "ddel", "dclear", "dreset", "clear", "reset"):
                doc_touched.add(op[1])
            if k in ("copy", "deepcopy", "pickle", "pickleproc") and real.startswith("ok"):
                if op[1] in doc_touched:
                    doc_touched.add(op[2])
                if k == "copy" and op[1] in doc_obj:
                    doc_obj[op[2]] = doc_obj[op[1]]     # a shallow copy shares the document object
                if op[1] in doc_tainted:
                    doc_tainted.add(op[2])
            if k in ("copy", "deepcopy", "pickle", "pickleproc") and op[1] in stale and real.startswith("ok"):
                stale.add(op[2])  # a copy of a stale handle is stale too
            # compare the workspace seen by a fresh session / on disk with the reference
            for p in range(nproj):
                exp = _noraw(pm.expected_jobs(p))
                got = _noraw(obs[p]["jobs"])
                if got != exp:
                    failures.append("step %d %s: project %d holds %s, reference model says %s" % (
                        i, json.dumps(op), p, json.dumps(got, sort_keys=True)[:400], json.dumps(exp, sort_keys=True)[:400]))
                api = obs[p]["api"]
                # names that look like temp / backup files are leftovers unless the reference model holds a user
                # file of that name in that job
                left = [x for x in obs[p]["leftovers"]
                        if x.split("/", 1)[-1] not in (exp.get(x.split("/", 1)[0]) or {}).get("files", {})]
                if left:
                    failures.append("step %d %s: leftovers %s" % (i, json.dumps(op), left))
                if api.get("check") != "ok":
                    failures.append("step %d %s: check() -> %s" % (i, json.dumps(op), api.get("check")))
                ids = sorted(exp)
                if api.get("iter") != ids or api.get("len") != len(ids) or api.get("find_len") != len(ids) or not api.get("contains", False):
                    failures.append("step %d %s: project %d len/iter/contains %s vs ids %s (foreign dirs %s)" % (
                        i, json.dumps(op), p, json.dumps({x: api.get(x) for x in ("len", "iter", "find_len", "contains", "iter_error", "project_error")}),
                        ids, obs[p]["foreign"]))
                if api.get("sps") is not None and api.get("sps") != {j: e["sp"] for j, e in exp.items()}:
                    failures.append("step %d %s: fresh handles report state points %s" % (i, json.dumps(op), api.get("sps")))
                if api.get("docs") is not None and api.get("docs") != {j: e["doc"] for j, e in exp.items()}:
                    failures.append("step %d %s: fresh handles report documents %s, reference %s" % (
                        i, json.dumps(op), api.get("docs"), {j: e["doc"] for j, e in exp.items()}))
            if check_handles:
                views = rw.handle_views()
                for name, v in views.items():
                    hd = pm.h.get(name)
                    if hd is None or name in stale:
                        continue
                    want = {"id": ref_id(hd["sp"]), "proj": hd["p"], "sp": tagged(hd["sp"])}
                    if "error" in v:
                        failures.append("step %d %s: handle %s unusable: %s" % (i, json.dumps(op), name, v["error"]))
                        continue
                    if v.get("lazy"):
                        if (v["id"], v["proj"]) != (want["id"], want["proj"]):
                            failures.append("step %d %s: lazy handle %s says %s, reference %s" % (i, json.dumps(op), name, v, want))
                        continue
                    got = {"id": v["id"], "proj": v["proj"], "sp": tagged(v["sp"])}
                    if got != want:
                        failures.append("step %d %s: handle %s says %s, reference %s" % (i, json.dumps(op), name, got, want))
                    elif tagged(v["cached"]) != want["sp"]:
                        failures.append("step %d %s: handle %s cached_statepoint %s but state point %s" % (
                            i, json.dumps(op), name, tagged(v["cached"]), want["sp"]))
                    elif not v["path_ok"]:
                        failures.append("step %d %s: handle %s path does not follow its id" % (i, json.dumps(op), name))
            rec["obs"] = [{"jobs": _noraw(o["jobs"]), "foreign": o["foreign"]} for o in obs]
            # ---- line for the Lean model and the token the real run must match ----
            cached = None
            if k == "openid" and real.startswith("ok") and m0_before_fix == "KeyError":
                rw.lazy.discard(op[1])
                cached = plain(rw.h[op[1]].statepoint())
            names = sorted(n for n in pm.h if n not in stale and n not in tainted and n in rw.h)
            if blocked:   # for the Lean model: an operation refused without effect
                rec["mop"] = model_op(["spbad", op[1], {}], None) + " @" + ",".join(names)
            else:
                rec["mop"] = model_op(op, cached) + " @" + ",".join(names)
            views = rw.handle_views() if not check_handles else views
            hv = {n: {"p": views[n].get("proj"), "id": views[n].get("id")} for n in names if n in views}
            rres = real.split(":")[0]
            if k in ("spbad", "badjob") and rres == "InvalidKeyError":
                rres = "KeyError"
            if blocked and rres.startswith("OSError"):
                rres = "KeyError"
            if k == "openid" and real.startswith("ok:"):
                rres = "ok=" + real[3:]
            rec["itok"] = ":".join([rres] + [ref_id({j: e["raw"] for j, e in obs[p]["jobs"].items()}) for p in range(2)]
                                   + [ref_id(hv)])
            records.append(rec)
            prev_obs = obs
            if stop_at_first and any(not f.startswith("KNOWN[") for f in failures):
                break
    finally:
        rw.close()
    return records, failures

"""Write MANIFEST.json from the property plug-ins that exist (keeps it valid at all times)."""
import importlib
import json
import os
import sys

VERIF = os.path.dirname(os.path.dirname(os.path.abspath(__file__)))
sys.path.insert(0, VERIF)
ALL = ["C%02d" % i for i in range(1, 21)]

NOT_YET = "check not built yet in this session; no claim is made (see DESIGN.md §8 build order)"


def main():
    checks, na = [], []
    with open(os.path.join(VERIF, "harness", "ready.json")) as f:
        ready = set(json.load(f))
    for pid in ALL:
        fn = os.path.join(VERIF, "harness", "props", pid.lower() + ".py")
        if pid not in ready or not os.path.exists(fn):
            na.append({"property_id": pid, "reason": NOT_YET})
            continue
        m = importlib.import_module("harness.props." + pid.lower())
        checks.append({
            "property_id": pid,
            "quick_cmd": "./check %s --tier quick" % pid,
            "thorough_cmd": "./check %s --tier thorough" % pid,
            "evidence_file": "evidence/%s.json" % pid,
            "replay_cmd_template": "./check %s --replay {path}" % pid,
            "engine": "lean4-proof+correspondence",
            "level_claimed": {
                "category": "proof",
                "text": m.LEVEL_TEXT,
                "design_ref": m.DESIGN_REF,
            },
            "level_note": m.LEVEL_NOTE,
            "technique": m.TECHNIQUE,
        })
    man = {
        "version": 1,
        "setup_cmd": "cd lean && lake build",
        "hooks": {
            "guard": "SIGNAC_VERIF",
            "enable": "no hooks: all instrumentation is applied from the harness process (DESIGN.md §2.7)",
            "baseline_off_cmd": "cd /repo && /venv/bin/python -m pytest -ra -q -p no:cacheprovider --timeout=900 --continue-on-collection-errors",
            "source_commits": [],
            "add_only": True,
        },
        "engines": [{
            "name": "lean4-proof+correspondence",
            "path": "check",
            "serves_properties": [c["property_id"] for c in checks],
            "kind_free_text": "Lean 4 theorems about hand-written executable models (lean/Signac), re-built and axiom-audited on every run; models tied to /repo by constants regenerated from the imported package (lean/Signac/Extracted.lean) and by a differential correspondence run of compiled Lean drivers against the real signac in-process; direct oracles search for a concrete failing input when either breaks",
        }],
        "checks": checks,
        "notes": "See DESIGN.md. Exit 0 = held; exit 1 + VIOLATION line = violation; exit 2 = internal error/time-out of the machinery. known_findings.json lists recorded genuine defects.",
        "not_applicable": na,
    }
    with open(os.path.join(VERIF, "MANIFEST.json"), "w") as f:
        json.dump(man, f, indent=1)
    print("MANIFEST.json: %d checks, %d not claimed" % (len(checks), len(na)))


if __name__ == "__main__":
    main()

"""faultfs — file-system step tracer and crash / fault injector for the REAL signac code
(DESIGN §2.4), applied from the harness process only: nothing under the repository is touched.

What is instrumented (while a `FaultFS` is installed):
  * `builtins.open` / `io.open` for writing modes: the returned object is
    `io.BufferedWriter(TracedRaw(io.FileIO))` (text modes: a TextIOWrapper around it), so a
    `write` is counted only when the bytes reach the raw file (data still sitting in a Python
    buffer when the process dies is lost, exactly as with a real process death);
  * `os.replace / rename / remove / unlink / rmdir / mkdir / symlink` (`os.makedirs` calls the
    patched `os.mkdir`; `dir_fd=` forms used by `shutil.rmtree` are resolved through /proc);
  * `os.listdir / os.scandir` are recorded as reads (never numbered, never faulted);
  * `shutil._USE_CP_SENDFILE = False`, so `shutil.copyfile` (hence `copy2`, `copytree`) goes
    through the patched `open`.

Only calls whose path lies under one of the watched roots are steps.  Steps are numbered 0,1,2…
in program order.  A step is `(kind, canonical path[, canonical path 2][, nbytes])` with
kind in  open | write | replace | remove | rmdir | mkdir | symlink ; canonical paths are
`<rootname>/<relative path>` with temp names `._<uuid>_X` rewritten to `._TMP_X`.

Plans:
  crash  k [torn t]   the process `os._exit`s right before performing step k; if step k is a write
                      and `torn` is given, the first t bytes (0 < t < len) are written first;
  fault  {k: errno}   step k is not performed, `OSError(errno)` is raised instead (several k allowed).

`run_forked(fn, roots, plan)` runs `fn()` in a forked child under the plan and reports
`{"status": "done"|"crashed", "exc": name|None, "steps": [...], "reads": [...], "faulted": [...]}`;
the caller then inspects the tree (with a fresh `signac.Project`).
"""
import builtins
import errno as _errno
import io
import json
import os
import re
import shutil
import traceback

ERRNOS = {"EIO": _errno.EIO, "ENOSPC": _errno.ENOSPC, "EACCES": _errno.EACCES,
          "EXDEV": _errno.EXDEV, "EROFS": _errno.EROFS}
CRASH_EXIT = 77
_TMP_RE = re.compile(r"\._[0-9a-f]{8}-[0-9a-f]{4}-[0-9a-f]{4}-[0-9a-f]{4}-[0-9a-f]{12}_")

_real = {
    "open": builtins.open, "io_open": io.open,
    "replace": os.replace, "rename": os.rename, "remove": os.remove, "unlink": os.unlink,
    "rmdir": os.rmdir, "mkdir": os.mkdir, "symlink": os.symlink,
    "listdir": os.listdir, "scandir": os.scandir,
}


# temporary files under other naming schemes: `<name>[.<pid>].<12-32 hex | uuid>.tmp` / `…~` next to `<name>`
_TMP_RE2 = re.compile(r"(^|/)([^/]+?)(?:\.\d+)?[.-](?:[0-9a-f]{8}-[0-9a-f]{4}-[0-9a-f]{4}-[0-9a-f]{4}-[0-9a-f]{12}|[0-9a-f]{12,32})(?:\.tmp|~)$")


def canon_name(p):
    """temp names are random: `._<uuid>_X` (the dependency's scheme) and `X.<random hex>.tmp` / `X.<random hex>~`
    (other schemes a maintainer might choose) are all written `._TMP_X`"""
    p = _TMP_RE.sub("._TMP_", p)
    # (a temp name may also hide itself with a leading dot: `.X.<random hex>.tmp`)
    return _TMP_RE2.sub(lambda m: m.group(1) + "._TMP_" + (m.group(2)[1:] if m.group(2).startswith(".") and len(m.group(2)) > 1
                                                            else m.group(2)), p)


class Plan:
    def __init__(self, crash=None, torn=None, faults=None):
        self.crash = crash                    # step index or None
        self.torn = torn                      # bytes of the write chunk that still reach the file
        self.faults = {int(k): v for k, v in (faults or {}).items()}   # step index -> errno name

    @staticmethod
    def from_json(d):
        d = d or {}
        return Plan(d.get("crash"), d.get("torn"), d.get("faults"))


class FaultFS:
    def __init__(self, roots, plan=None, sink=None):
        # longest root first so nested roots canonicalise to the innermost name
        self.roots = sorted(((os.path.realpath(p), n) for n, p in roots.items()),
                            key=lambda t: -len(t[0]))
        self.plan = plan or Plan()
        self.n = 0
        self.steps = []
        self.reads = []
        self.faulted = []
        self.sink = sink                      # fd to stream events to (survives os._exit)
        self._installed = False

    # ---- paths -------------------------------------------------------------------------
    def _abs(self, path, dir_fd=None):
        if isinstance(path, int):
            return os.readlink("/proc/self/fd/%d" % path)
        path = os.fsdecode(path)
        if dir_fd is not None and not os.path.isabs(path):
            path = os.path.join(os.readlink("/proc/self/fd/%d" % dir_fd), path)
        return os.path.abspath(path)

    def canon(self, path, dir_fd=None):
        """canonical name of a watched path, None if the path is not under a watched root"""
        try:
            a = self._abs(path, dir_fd)
        except OSError:
            return None
        d, b = os.path.split(a)
        a = os.path.join(os.path.realpath(d), b)
        for root, name in self.roots:
            if a == root:
                return name
            if a.startswith(root + os.sep):
                return canon_name(name + "/" + a[len(root) + 1:])
        return None

    # ---- the step gate -----------------------------------------------------------------
    def _emit(self, kind, rec):
        if self.sink is not None:
            os.write(self.sink, (json.dumps([kind] + list(rec)) + "\n").encode())

    def gate(self, step, raw_write=None):
        """Called right before a mutating primitive.  Records it, then crashes / faults as planned.
        raw_write(t) writes the first t bytes of the chunk (torn write support)."""
        k = self.n
        self.n += 1
        self.steps.append(step)
        self._emit("S", step)
        if self.plan.crash == k:
            if raw_write is not None and self.plan.torn:
                raw_write(int(self.plan.torn))
            os._exit(CRASH_EXIT)
        if k in self.plan.faults:
            name = self.plan.faults[k]
            self.faulted.append(k)
            self._emit("F", (k, name))
            raise OSError(ERRNOS[name], os.strerror(ERRNOS[name]) + " [injected]", step[1])

    # ---- wrappers ----------------------------------------------------------------------
    def _open(self, file, mode="r", buffering=-1, encoding=None, errors=None, newline=None,
              closefd=True, opener=None):
        writing = any(c in mode for c in "wax+")
        cp = None
        if writing and not isinstance(file, int) and opener is None:
            cp = self.canon(file)
        if cp is None:
            return _real["open"](file, mode, buffering, encoding, errors, newline, closefd, opener)
        fs = self
        self.gate(("open", cp, mode.replace("b", "").replace("t", "")))
        rawmode = mode.replace("b", "").replace("t", "")

        class TracedRaw(io.FileIO):
            def write(self, b):
                b = bytes(b)
                sup = super()

                def torn(t):
                    t = max(1, min(len(b) - 1, t))
                    if len(b) >= 2:
                        sup.write(b[:t])

                fs.gate(("write", cp, len(b)), raw_write=torn)
                return sup.write(b)

        raw = TracedRaw(os.fspath(file), rawmode)
        if buffering == 0:
            return raw
        buf = io.BufferedWriter(raw) if "+" not in rawmode else io.BufferedRandom(raw)
        if "b" in mode:
            return buf
        return io.TextIOWrapper(buf, encoding=encoding, errors=errors, newline=newline)

    def _two(self, kind, real):
        def f(src, dst, *a, **kw):
            cs = self.canon(src, kw.get("src_dir_fd"))
            cd = self.canon(dst, kw.get("dst_dir_fd"))
            if cs is not None or cd is not None:
                self.gate((kind, cs or "?", cd or "?"))
            return real(src, dst, *a, **kw)
        return f

    def _one(self, kind, real):
        def f(path, *a, **kw):
            cp = self.canon(path, kw.get("dir_fd"))
            if cp is not None:
                k = self.n
                self.gate((kind, cp))
                if kind == "mkdir":
                    try:
                        return real(path, *a, **kw)
                    except FileExistsError:
                        self._emit("N", (k,))   # a mkdir that found the directory in place: no effect
                        raise
            return real(path, *a, **kw)
        return f

    def _symlink(self, src, dst, *a, **kw):
        cd = self.canon(dst, kw.get("dir_fd"))
        if cd is not None:
            self.gate(("symlink", cd, os.fsdecode(src)))
        return _real["symlink"](src, dst, *a, **kw)

    def _listdir(self, path="."):
        out = _real["listdir"](path)
        cp = self.canon(path)
        if cp is not None:
            rec = ("listdir", cp, [canon_name(os.fsdecode(x)) for x in out])
            self.reads.append(rec)
            self._emit("R", rec)
        return out

    def _scandir(self, path="."):
        it = _real["scandir"](path)
        cp = self.canon(path)
        if cp is None:
            return it
        entries = list(it)
        it.close()
        rec = ("scandir", cp, [canon_name(os.fsdecode(e.name)) for e in entries])
        self.reads.append(rec)
        self._emit("R", rec)
        return _ScandirList(entries)

    # ---- install -----------------------------------------------------------------------
    def install(self):
        assert not self._installed
        self._saved = {
            "sendfile": getattr(shutil, "_USE_CP_SENDFILE", None),
        }
        builtins.open = self._open
        io.open = self._open
        os.replace = self._two("replace", _real["replace"])
        os.rename = self._two("replace", _real["rename"])
        os.remove = self._one("remove", _real["remove"])
        os.unlink = self._one("remove", _real["unlink"])
        os.rmdir = self._one("rmdir", _real["rmdir"])
        os.mkdir = self._one("mkdir", _real["mkdir"])
        os.symlink = self._symlink
        os.listdir = self._listdir
        os.scandir = self._scandir
        shutil._USE_CP_SENDFILE = False
        self._installed = True
        return self

    def uninstall(self):
        if not self._installed:
            return
        builtins.open = _real["open"]
        io.open = _real["io_open"]
        for k in ("replace", "rename", "remove", "unlink", "rmdir", "mkdir", "symlink", "listdir", "scandir"):
            setattr(os, k, _real[k])
        if self._saved["sendfile"] is not None:
            shutil._USE_CP_SENDFILE = self._saved["sendfile"]
        self._installed = False

    def __enter__(self):
        return self.install()

    def __exit__(self, *a):
        self.uninstall()
        return False


class _ScandirList:
    """what os.scandir returns, already read (iterator + context manager + close)"""

    def __init__(self, entries):
        self._it = iter(entries)

    def __iter__(self):
        return self

    def __next__(self):
        return next(self._it)

    def __enter__(self):
        return self

    def __exit__(self, *a):
        return False

    def close(self):
        pass


def default_exc_name(e):
    n = type(e).__name__
    if isinstance(e, OSError) and e.errno is not None and n in (
            "OSError", "FileNotFoundError", "FileExistsError", "PermissionError",
            "NotADirectoryError", "IsADirectoryError"):
        return "OSError(%s)" % _errno.errorcode.get(e.errno, e.errno)
    return n


def run_forked(fn, roots, plan=None, exc_name=default_exc_name, after=None):
    """Run fn() in a forked child with the file system instrumented according to `plan`.
    Returns {"status","exc","steps","reads","faulted","detail"}.  The child never returns."""
    if isinstance(plan, dict) or plan is None:
        plan = Plan.from_json(plan)
    r, w = os.pipe()
    pid = os.fork()
    if pid == 0:
        code = 0
        try:
            os.close(r)
            fs = FaultFS(roots, plan, sink=w)
            exc = None
            detail = ""
            try:
                with fs:
                    fn()
            except BaseException as e:  # noqa: the caller's view of the operation
                exc = exc_name(e) if isinstance(e, Exception) else type(e).__name__
                detail = "".join(traceback.format_exception_only(type(e), e))[-300:]
            if after is not None:
                # the caller's view of its own objects once the operation is over (un-instrumented)
                try:
                    os.write(w, (json.dumps(["A", after()], default=str) + "\n").encode())
                except BaseException as e:  # noqa
                    os.write(w, (json.dumps(["A", {"error": type(e).__name__ + ": " + str(e)[:200]}]) + "\n").encode())
            os.write(w, (json.dumps(["E", exc, detail]) + "\n").encode())
        except BaseException:
            try:
                os.write(w, (json.dumps(["X", traceback.format_exc()[-800:]]) + "\n").encode())
            except BaseException:
                pass
            code = 3
        finally:
            os._exit(code)
    os.close(w)
    chunks = []
    while True:
        b = os.read(r, 65536)
        if not b:
            break
        chunks.append(b)
    os.close(r)
    _, st = os.waitpid(pid, 0)
    code = os.waitstatus_to_exitcode(st)
    res = {"status": None, "exc": None, "steps": [], "reads": [], "faulted": [], "detail": "", "noeffect": []}
    done = False
    for line in b"".join(chunks).decode().split("\n"):
        if not line:
            continue
        rec = json.loads(line)
        if rec[0] == "S":
            res["steps"].append(tuple(rec[1:]))
        elif rec[0] == "R":
            res["reads"].append(tuple(rec[1:]))
        elif rec[0] == "F":
            res["faulted"].append(rec[1])
        elif rec[0] == "N":
            res["noeffect"].append(rec[1])
        elif rec[0] == "A":
            res["after"] = rec[1]
        elif rec[0] == "E":
            done = True
            res["exc"], res["detail"] = rec[1], rec[2]
        elif rec[0] == "X":
            raise RuntimeError("faultfs child failed: " + rec[1])
    if code == CRASH_EXIT:
        res["status"] = "crashed"
        # the step the child died in front of was announced but not performed
        res["crash_step"] = res["steps"].pop() if res["steps"] else None
    elif code == 0 and done:
        res["status"] = "done"
    else:
        raise RuntimeError("faultfs child exit code %r, done=%r" % (code, done))
    return res


def step_str(step):
    return " ".join(str(x) for x in step)

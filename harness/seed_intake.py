"""Take a sub-agent's delivery (/tmp/seedwork/<pid>/<a|b>) into seeded/<pid><c|d|...>, confirm it
(patch applies to a scratch copy, test-suite, demo patched/clean) and run the registered check.

usage: harness/seed_intake.py <delivery dir> <new seed id> [--props C03,C04]"""
import json
import os
import shutil
import subprocess
import sys

VERIF = os.path.dirname(os.path.dirname(os.path.abspath(__file__)))


def main():
    src, sid = sys.argv[1], sys.argv[2]
    extra = sys.argv[3:]
    dst = os.path.join(VERIF, "seeded", sid)
    os.makedirs(dst, exist_ok=True)
    for fn in ("patch.diff", "demo.py", "meta.json"):
        shutil.copy(os.path.join(src, fn), os.path.join(dst, fn))
    meta = json.load(open(os.path.join(dst, "meta.json")))
    meta["round"] = int(os.environ.get("SEED_ROUND", "6"))
    json.dump(meta, open(os.path.join(dst, "meta.json"), "w"), indent=1)
    env = dict(os.environ, PATH="/venv/bin:" + os.environ["PATH"])
    r = subprocess.run([sys.executable, os.path.join(VERIF, "harness", "seedtest.py"), dst, "--tests"] + extra,
                       capture_output=True, text=True, env=env)
    open(os.path.join(dst, "result.json"), "w").write(r.stdout)
    try:
        res = json.loads(r.stdout)
    except Exception:
        print(sid, "seedtest failed:", r.stdout[-300:], r.stderr[-300:])
        return 2
    print(sid, "tests:", res.get("tests"), "| demo patched/clean:", res.get("demo_patched_exit"), res.get("demo_clean_exit"))
    for run in res.get("runs", []):
        print("   ", run["check"], "exit", run["exit"], "%.0fs" % run["wall"], (run["lines"] or [""])[0][:80], "|", (run["lines"][1:2] or [""])[0][:200], run.get("stderr", "")[-200:])
    return 0


if __name__ == "__main__":
    sys.exit(main())

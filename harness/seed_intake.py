"""Take the seeded changes delivered under /tmp/seeds/cNN (patchA/B.diff, demoA/B.py, metaA/B.json), confirm them
(patch applies, tests pass, demo fails with / passes without), run the registered check(s), and keep them under
/verif/seeded/<id>/ with result.json.   usage: seed_intake.py C08 [C02 ...] [--props C03,C04] [--notests]"""
import json
import os
import shutil
import subprocess
import sys

VERIF = os.path.dirname(os.path.dirname(os.path.abspath(__file__)))


def main():
    args = [a for a in sys.argv[1:] if not a.startswith("--")]
    props = None
    notests = "--notests" in sys.argv
    srcroot, suffix = "/tmp/seeds", "ab"
    for a in sys.argv[1:]:
        if a.startswith("--props="):
            props = a.split("=", 1)[1]
        if a.startswith("--src="):
            srcroot = a.split("=", 1)[1]
        if a.startswith("--suffix="):
            suffix = a.split("=", 1)[1]
    for pid in args:
        src = "%s/c%s" % (srcroot, pid[1:])
        for v, sfx in zip("AB", suffix):
            if not os.path.exists(os.path.join(src, "patch%s.diff" % v)):
                print(pid, v, "missing")
                continue
            dst = os.path.join(VERIF, "seeded", "%s%s" % (pid, sfx))
            os.makedirs(dst, exist_ok=True)
            shutil.copy(os.path.join(src, "patch%s.diff" % v), os.path.join(dst, "patch.diff"))
            shutil.copy(os.path.join(src, "demo%s.py" % v), os.path.join(dst, "demo.py"))
            meta = json.load(open(os.path.join(src, "meta%s.json" % v)))
            meta["property"] = pid
            json.dump(meta, open(os.path.join(dst, "meta.json"), "w"), indent=1)
            cmd = [os.path.join(VERIF, "harness", "seedtest.py"), dst]
            if not notests:
                cmd.append("--tests")
            if props:
                cmd.append("--props=" + props)
            r = subprocess.run(["/venv/bin/python"] + cmd, capture_output=True, text=True)
            try:
                res = json.loads(r.stdout)
            except Exception:
                res = {"error": r.stdout[-500:] + r.stderr[-500:]}
            json.dump(res, open(os.path.join(dst, "result.json"), "w"), indent=1)
            runs = res.get("runs", [])
            verdict = ["%s:exit%s%s" % (x["check"], x["exit"], "(nfi)" if any("no-failing-input-found" in l for l in x["lines"]) else "") for x in runs]
            print(pid + sfx, "tests=", res.get("tests"), "demo(patched/clean)=", res.get("demo_patched_exit"), res.get("demo_clean_exit"),
                  " ".join(verdict), res.get("error", ""))


if __name__ == "__main__":
    main()

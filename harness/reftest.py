"""Run registered checks against a property-PRESERVING change (development aid): any alarm is a false alarm
of the machinery unless the change turns out not to preserve the property.
usage: harness/reftest.py <dir with patch.diff, meta.json> --props C10,C11"""
import json
import os
import shutil
import subprocess
import sys
import tempfile

VERIF = os.path.dirname(os.path.dirname(os.path.abspath(__file__)))


def main():
    d = os.path.abspath(sys.argv[1])
    props = sys.argv[sys.argv.index("--props") + 1]
    tmp = tempfile.mkdtemp(prefix="ref_", dir="/dev/shm")
    try:
        shutil.copy(os.path.join(d, "patch.diff"), tmp)
        with open(os.path.join(tmp, "demo.py"), "w") as f:
            f.write("import sys; sys.exit(0)\n")
        meta = json.load(open(os.path.join(d, "meta.json")))
        json.dump(meta, open(os.path.join(tmp, "meta.json"), "w"))
        r = subprocess.run([sys.executable, os.path.join(VERIF, "harness", "seedtest.py"), tmp, "--props", props],
                           capture_output=True, text=True)
        t = r.stdout
        res = json.loads(t[t.index("{"):])
        for run in res.get("runs", []):
            print(os.path.basename(os.path.dirname(d)) + "/" + os.path.basename(d), run["check"], "exit", run["exit"],
                  "|", " ".join(run["lines"][:2])[:260], run.get("stderr", "")[-200:])
        if res.get("error"):
            print("ERROR", res["error"])
    finally:
        shutil.rmtree(tmp, ignore_errors=True)


if __name__ == "__main__":
    main()

"""Shared machinery of all checks (DESIGN §2): wire format, Lean build + axiom audit,
driver invocation, sharded correspondence run, direct oracles, known findings,
search-on-break, replays and evidence.

A property plugs in as a module `harness.props.cXX` exposing

    ID, TITLE, LEAN_MODULE, DRIVER (exe name or None), DESIGN_REF
    MODELLED (list[str]: what is modelled-not-verified, for the trusted base)
    generate(tier, rng) -> iterable of JSON-serialisable cases
    run_case(case, ctx) -> dict(model=[input lines], impl=[expected output lines],
                                oracle=[failure strings], tags=[...], key=hashable|None)
    shrink(case) -> iterable of smaller cases          (optional)
    search(rng, ctx, deadline) -> iterable of cases     (optional, used by L3)
    known_class(case, result) -> finding id | None      (optional)

`impl` lines come from running the real signac in-process; `model` lines are fed
to the compiled Lean driver whose answers must equal `impl`, line by line.
`oracle` evaluates the property itself on the real code, independent of the model.
"""
import argparse
import fcntl
import hashlib
import importlib
import json
import multiprocessing as mp
import os
import random
import re
import shutil
import subprocess
import sys
import tempfile
import time
import traceback

VERIF = os.path.dirname(os.path.dirname(os.path.abspath(__file__)))
REPO = os.environ.get("VERIF_REPO", "/repo")
LEAN_DIR = os.path.join(VERIF, "lean")
ALLOWED_AXIOMS = {"propext", "Classical.choice", "Quot.sound"}
FORBIDDEN = re.compile(
    r"\bsorry\b|\badmit\b|^\s*axiom\s|native_decide|bv_decide|implemented_by|\bunsafe\s|maxHeartbeats\s+0"
)
NCPU = max(1, min(16, os.cpu_count() or 1))

if REPO not in sys.path:
    sys.path.insert(0, REPO)


# ----------------------------------------------------------------------------
# wire format
# ----------------------------------------------------------------------------
def hx(s):
    return s.encode("utf-8").hex()


def enc_val(x):
    """Python value (JSON-born, or tuple / synced collection already made plain) -> wire tokens."""
    if x is None:
        return "N"
    if x is True:
        return "T"
    if x is False:
        return "F"
    if isinstance(x, int):
        return "I%d" % x
    if isinstance(x, float):
        n, d = x.as_integer_ratio()
        e = d.bit_length() - 1
        assert d == 1 << e
        return "D%d/%d:%s" % (n, e, hx(float.__repr__(x)))
    if isinstance(x, str):
        return "S" + hx(x)
    if isinstance(x, (list, tuple)):
        return " ".join(["A%d" % len(x)] + [enc_val(v) for v in x])
    if isinstance(x, dict):
        parts = ["O%d" % len(x)]
        for k, v in x.items():
            assert isinstance(k, str), k
            parts.append("S" + hx(k))
            parts.append(enc_val(v))
        return " ".join(parts)
    raise TypeError(type(x))


def tagged(x):
    """Type-exact canonical rendering of a JSON-born Python value (for comparisons
    that must distinguish 1 / 1.0 / True); dict entries sorted by key."""
    if x is None:
        return "n"
    if x is True:
        return "t"
    if x is False:
        return "f"
    if isinstance(x, int):
        return "i%d" % x
    if isinstance(x, float):
        return "d" + float.__repr__(x)
    if isinstance(x, str):
        return "s" + json.dumps(x)
    if isinstance(x, (list, tuple)):
        return "[" + ",".join(tagged(v) for v in x) + "]"
    if hasattr(x, "items"):
        return "{" + ",".join(json.dumps(k) + ":" + tagged(v) for k, v in sorted(x.items())) + "}"
    return "?" + type(x).__name__


def exc_name(e):
    """Small enum of exception kinds (DESIGN §2.3 b)."""
    n = type(e).__name__
    import errno as _errno

    if isinstance(e, OSError) and e.errno is not None and n in (
        "OSError", "FileNotFoundError", "FileExistsError", "PermissionError",
        "NotADirectoryError", "IsADirectoryError",
    ):
        return "OSError(%s)" % _errno.errorcode.get(e.errno, e.errno)
    return n


# ----------------------------------------------------------------------------
# Lean side
# ----------------------------------------------------------------------------
class BuildLock:
    def __enter__(self):
        os.makedirs(LEAN_DIR, exist_ok=True)
        self.f = open(os.path.join(LEAN_DIR, ".build.lock"), "w")
        fcntl.flock(self.f, fcntl.LOCK_EX)
        return self

    def __exit__(self, *a):
        fcntl.flock(self.f, fcntl.LOCK_UN)
        self.f.close()


def lean_sources_for(module):
    """Transitive closure of project-local imports of `module` (file paths)."""
    seen, todo = {}, [module]
    while todo:
        m = todo.pop()
        if m in seen:
            continue
        fn = os.path.join(LEAN_DIR, *m.split(".")) + ".lean"
        if not os.path.exists(fn):
            continue
        seen[m] = fn
        with open(fn) as f:
            for line in f:
                mm = re.match(r"\s*import\s+([\w.]+)", line)
                if mm and (mm.group(1).startswith("Signac") or mm.group(1).startswith("Drv")):
                    todo.append(mm.group(1))
    return seen


def strip_comments(text):
    text = re.sub(r"/-.*?-/", lambda m: "\n" * m.group(0).count("\n"), text, flags=re.S)
    return re.sub(r"--.*", "", text)


def forbidden_tokens(files):
    hits = []
    for fn in files:
        with open(fn) as f:
            body = strip_comments(f.read())
        for i, line in enumerate(body.split("\n"), 1):
            if FORBIDDEN.search(line):
                hits.append("%s:%d: %s" % (os.path.relpath(fn, VERIF), i, line.strip()))
    return hits


def property_theorems(module):
    """Names of the theorems / number of examples stated in a Properties file."""
    fn = os.path.join(LEAN_DIR, *module.split(".")) + ".lean"
    with open(fn) as f:
        body = strip_comments(f.read())
    ns = re.search(r"^namespace\s+(\S+)", body, flags=re.M)
    prefix = (ns.group(1) + ".") if ns else ""
    thms = [prefix + m for m in re.findall(r"^theorem\s+(\S+)", body, flags=re.M)]
    examples = len(re.findall(r"^example\b", body, flags=re.M))
    return thms, examples


def lean_check(prop, tier="quick"):
    """L0 + L1: regenerate Extracted.lean, build the property module and its driver,
    audit axioms, grep forbidden tokens; thorough tier: re-check the compiled modules with
    `leanchecker`.  Returns a dict; never raises on proof failure."""
    from harness import extract

    res = {"ok": False, "theorems": [], "examples": 0, "axioms": {}, "errors": [],
           "extracted_rewritten": False, "build_s": 0.0}
    t0 = time.time()
    with BuildLock():
        try:
            res["extracted_rewritten"] = extract.write(REPO, VERIF)
        except Exception as e:  # the running package no longer exposes what the model is built on
            res["errors"].append("extract failed: %s: %s" % (type(e).__name__, e))
            res["build_s"] = time.time() - t0
            return res
        modules = [prop.LEAN_MODULE] + list(getattr(prop, "EXTRA_MODULES", []))
        targets = modules + ([prop.DRIVER] if prop.DRIVER else [])
        p = subprocess.run(["lake", "build"] + targets, cwd=LEAN_DIR, capture_output=True, text=True)
        out = p.stdout + p.stderr
        if p.returncode != 0:
            errs = [l for l in out.split("\n") if "error" in l.lower()][:20]
            res["errors"].append("lake build failed: " + " | ".join(errs))
            res["build_s"] = time.time() - t0
            res["build_log"] = out[-4000:]
            return res
        thms, examples = [], 0
        for m_ in modules:
            t_, e_ = property_theorems(m_)
            thms += t_
            examples += e_
        res["theorems"], res["examples"] = thms, examples
        audit = "".join("import %s\n" % m_ for m_ in modules) + "".join("#print axioms %s\n" % t for t in thms)
        afn = os.path.join(LEAN_DIR, ".audit_%s_%d.lean" % (prop.ID, os.getpid()))
        with open(afn, "w") as f:
            f.write(audit)
        try:
            p = subprocess.run(["lake", "env", "lean", afn], cwd=LEAN_DIR, capture_output=True, text=True)
        finally:
            os.unlink(afn)
    out = p.stdout + p.stderr
    for m in re.finditer(r"'([^']+)' depends on axioms: \[([^\]]*)\]", out, flags=re.S):
        res["axioms"][m.group(1)] = [a.strip() for a in m.group(2).replace("\n", " ").split(",") if a.strip()]
    for m in re.finditer(r"'([^']+)' does not depend on any axioms", out):
        res["axioms"][m.group(1)] = []
    for t in thms:
        if t not in res["axioms"]:
            res["errors"].append("no axiom report for %s" % t)
        else:
            bad = [a for a in res["axioms"][t] if a not in ALLOWED_AXIOMS]
            if bad:
                res["errors"].append("%s depends on %s" % (t, bad))
    if p.returncode != 0:
        res["errors"].append("audit failed: " + out[-500:])
    files = [f for m_ in [prop.LEAN_MODULE] + list(getattr(prop, "EXTRA_MODULES", [])) for f in lean_sources_for(m_).values()]
    if prop.DRIVER:
        files += list(lean_sources_for(driver_root(prop.DRIVER)).values())
    hits = forbidden_tokens(sorted(set(files)))
    if hits:
        res["errors"].append("forbidden tokens: " + "; ".join(hits[:5]))
    res["files"] = sorted(os.path.relpath(f, VERIF) for f in set(files))
    res["leanchecker"] = None
    if tier == "thorough" and not res["errors"]:
        # independent re-check of the compiled .olean files of every project module the property imports
        mods = sorted({m for m_ in [prop.LEAN_MODULE] + list(getattr(prop, "EXTRA_MODULES", [])) for m in lean_sources_for(m_)})
        with BuildLock():
            p = subprocess.run(["lake", "env", "leanchecker"] + mods, cwd=LEAN_DIR, capture_output=True, text=True)
        res["leanchecker"] = {"modules": len(mods), "exit": p.returncode}
        if p.returncode != 0:
            res["errors"].append("leanchecker rejected the compiled modules: " + (p.stdout + p.stderr)[-400:])
    res["ok"] = not res["errors"]
    res["build_s"] = time.time() - t0
    return res


def driver_root(exe):
    with open(os.path.join(LEAN_DIR, "lakefile.toml")) as f:
        txt = f.read()
    m = re.search(r'name\s*=\s*"%s"\s*\n\s*root\s*=\s*"([^"]+)"' % re.escape(exe), txt)
    return m.group(1) if m else exe


def run_driver(exe, lines):
    """Feed lines to the compiled driver; one output line per input line."""
    if not lines:
        return []
    path = os.path.join(LEAN_DIR, ".lake", "build", "bin", exe)
    data = ("\n".join(lines) + "\n").encode()
    p = subprocess.run([path], input=data, capture_output=True)
    if p.returncode != 0:
        raise RuntimeError("driver %s failed: %s" % (exe, p.stderr.decode()[-500:]))
    out = p.stdout.decode().split("\n")
    if out and out[-1] == "":
        out.pop()
    if len(out) != len(lines):
        raise RuntimeError("driver %s answered %d lines for %d" % (exe, len(out), len(lines)))
    return out


# ----------------------------------------------------------------------------
# scratch / context
# ----------------------------------------------------------------------------
def scratch_root():
    base = "/dev/shm" if os.path.isdir("/dev/shm") and os.access("/dev/shm", os.W_OK) else None
    return tempfile.mkdtemp(prefix="sgv_", dir=base)


class Ctx:
    """Per-worker context: scratch directories, fresh projects."""

    def __init__(self, root):
        self.root = root
        self.n = 0

    def fresh_dir(self, name="d"):
        while True:
            self.n += 1
            d = os.path.join(self.root, "%s%d_%d" % (name, os.getpid(), self.n))
            if not os.path.lexists(d):     # (a case that raised before its clean-up may have left one behind)
                break
        os.makedirs(d)
        return d

    def fresh_project(self, name="p"):
        import signac

        return signac.init_project(self.fresh_dir(name))

    def cleanup(self, d):
        shutil.rmtree(d, ignore_errors=True)


def tree_snapshot(root, skip=()):
    """Sorted (relative path, kind, sha1 | link target) of everything below root."""
    out = []
    for dp, dns, fns in os.walk(root):
        dns.sort()
        rel = os.path.relpath(dp, root)
        for d in list(dns):
            full = os.path.join(dp, d)
            r = os.path.normpath(os.path.join(rel, d))
            if os.path.islink(full):
                out.append((r, "l", os.readlink(full)))
                dns.remove(d)
            else:
                out.append((r, "d", ""))
        for fn in sorted(fns):
            full = os.path.join(dp, fn)
            r = os.path.normpath(os.path.join(rel, fn))
            if r in skip:
                continue
            if os.path.islink(full):
                out.append((r, "l", os.readlink(full)))
            else:
                with open(full, "rb") as f:
                    out.append((r, "f", hashlib.sha1(f.read()).hexdigest()))
    return sorted(out)


# ----------------------------------------------------------------------------
# running cases
# ----------------------------------------------------------------------------
_PROP = None
_ROOT = None


def _worker_init(prop_name, root):
    global _PROP, _ROOT
    import logging

    logging.disable(logging.CRITICAL)  # signac logs expected failures loudly; the checks observe results, not logs
    _PROP = importlib.import_module(prop_name)
    _ROOT = root


def _worker_run(chunk):
    ctx = Ctx(_ROOT)
    out = []
    for idx, case in chunk:
        try:
            r = _PROP.run_case(case, ctx)
            r.setdefault("oracle", [])
            r.setdefault("tags", [])
            r.setdefault("key", None)
            r.setdefault("model", [])
            r.setdefault("impl", [])
        except Exception as e:
            # the plug-ins catch what the property allows to be raised; anything that still escapes is
            # behaviour the case did not expect from the code under test -> judged like an oracle failure
            r = {"model": [], "impl": [], "tags": ["unexpected-exception"], "key": None,
                 "oracle": ["unexpected %s while running the case: %s | %s" % (
                     type(e).__name__, str(e)[:200], traceback.format_exc()[-600:].replace("\n", " / "))]}
        out.append((idx, case, r))
    return out


def run_cases(prop, cases, root, procs=NCPU):
    cases = list(enumerate(cases))
    if not cases:
        return []
    nchunks = max(1, min(len(cases), procs * 4))
    chunks = [cases[i::nchunks] for i in range(nchunks)]
    if procs <= 1 or len(cases) < 4:
        _worker_init(prop.__name__, root)
        res = [_worker_run(c) for c in chunks]
    else:
        ctxm = mp.get_context("fork")
        with ctxm.Pool(procs, initializer=_worker_init, initargs=(prop.__name__, root)) as pool:
            res = pool.map(_worker_run, chunks)
    flat = [x for r in res for x in r]
    flat.sort(key=lambda t: t[0])
    return flat


def compare(prop, results):
    """Run the driver over all model lines; return list of (idx, case, result, diffs)."""
    lines, spans = [], []
    for idx, case, r in results:
        spans.append((len(lines), len(r["model"])))
        lines.extend(r["model"])
    outs = run_driver(prop.DRIVER, lines) if (prop.DRIVER and lines) else []
    mism = []
    for (idx, case, r), (a, n) in zip(results, spans):
        got = outs[a:a + n]
        exp = r["impl"]
        if len(exp) != n:
            mism.append((idx, case, r, [("len", "model lines %d" % n, "impl lines %d" % len(exp))]))
            continue
        d = [(i, exp[i], got[i]) for i in range(n) if exp[i] != got[i]]
        if d:
            mism.append((idx, case, r, d))
    return mism, len(lines)


# ----------------------------------------------------------------------------
# known findings
# ----------------------------------------------------------------------------
def load_known(pid):
    fn = os.path.join(VERIF, "known_findings.json")
    if not os.path.exists(fn):
        return []
    with open(fn) as f:
        data = json.load(f)
    return [k for k in data.get("findings", []) if k.get("property") == pid or pid in k.get("also", [])]


# ----------------------------------------------------------------------------
# main check
# ----------------------------------------------------------------------------
def write_replay(pid, payload):
    d = os.path.join(VERIF, "replays", pid)
    os.makedirs(d, exist_ok=True)
    blob = json.dumps(payload, sort_keys=True, indent=1, default=str)
    fn = os.path.join(d, hashlib.sha1(blob.encode()).hexdigest()[:12] + ".json")
    with open(fn, "w") as f:
        f.write(blob)
    return os.path.relpath(fn, VERIF)


def shrink_case(prop, case, still_fails, budget_s=20.0):
    if not hasattr(prop, "shrink"):
        return case
    t_end = time.time() + budget_s
    cur = case
    improved = True
    while improved and time.time() < t_end:
        improved = False
        for cand in prop.shrink(cur):
            if time.time() > t_end:
                break
            try:
                if still_fails(cand):
                    cur = cand
                    improved = True
                    break
            except Exception:
                continue
    return cur


def check(prop_name, tier, seed, replay=None):
    t0 = time.time()
    root = scratch_root()
    # isolate from the user's global signac configuration (~/.signacrc is read by every Project);
    # must happen before signac is imported (USER_CONFIG_FN is computed at import time)
    real_home = os.environ.get("HOME", "")
    os.makedirs(os.path.join(root, "home"), exist_ok=True)
    os.environ["HOME"] = os.path.join(root, "home")
    os.environ.setdefault("VERIF_REAL_HOME", real_home)
    prop = importlib.import_module(prop_name)
    pid = prop.ID
    status = 0
    out_lines = []
    ev = {
        "property_id": pid, "tier": tier, "seed": seed, "level": "proof",
        "coverage": {}, "assumptions": [], "wall_s": 0.0, "violations": 0,
    }
    try:
        lean = lean_check(prop, tier)
        rng = random.Random("%s/%s/%d" % (pid, tier, seed))
        if replay:
            with open(replay) as f:
                payload = json.load(f)
            cases = [payload["case"]] if "case" in payload else []
        else:
            corpus = []
            cdir = os.path.join(VERIF, "harness", "corpus", pid)
            if os.path.isdir(cdir):
                for fn in sorted(os.listdir(cdir)):
                    if fn.endswith(".json"):
                        with open(os.path.join(cdir, fn)) as f:
                            corpus.append(json.load(f)["case"])
            cases = corpus + list(prop.generate(tier, rng))
        results = run_cases(prop, cases, root)
        mism, nlines = ([], 0)
        corr_error = None
        if lean["ok"] or os.path.exists(os.path.join(LEAN_DIR, ".lake", "build", "bin", prop.DRIVER or "-")):
            try:
                mism, nlines = compare(prop, results)
            except RuntimeError as e:
                corr_error = str(e)
        else:
            corr_error = "driver not built"

        known = load_known(pid)
        known_ids = {k["id"]: k for k in known if k.get("status", "known") == "known"}
        kclass = getattr(prop, "known_class", lambda case, r: None)

        # direct oracle verdicts (property evaluated on the real code)
        violations, known_hits = [], {}
        for idx, case, r in results:
            if r["oracle"]:
                k = kclass(case, r)
                if k is not None and k in known_ids:
                    known_hits.setdefault(k, (case, r["oracle"]))
                else:
                    violations.append((idx, case, r))
        # correspondence disagreements outside known classes and without an oracle failure
        unexplained = []
        for idx, case, r, d in mism:
            if r["oracle"]:
                continue  # already judged by the oracle above
            k = kclass(case, r)
            if k is not None and k in known_ids:
                continue
            unexplained.append((idx, case, r, d))

        broken = []
        if not lean["ok"]:
            broken.append("proof: " + "; ".join(lean["errors"]))
        if corr_error:
            broken.append("correspondence: " + corr_error)
        if unexplained:
            broken.append("correspondence: %d case(s) where model and implementation differ" % len(unexplained))

        searched = 0
        if broken and not violations and hasattr(prop, "search") and not replay:
            # L3: the proof or the tie broke; look for a concrete failing input with the oracle
            deadline = time.time() + (30 if tier == "quick" else 180)
            srng = random.Random("%s/search/%d" % (pid, seed))
            batch = []
            for case in prop.search(srng, deadline):
                batch.append(case)
                if len(batch) >= 64 * NCPU:
                    rs = run_cases(prop, batch, root)
                    searched += len(rs)
                    batch = []
                    bad = [(i, c, r) for i, c, r in rs if r.get("oracle") and not (
                        kclass(c, r) in known_ids)]
                    if bad:
                        violations.extend(bad[:1])
                        break
                if time.time() > deadline:
                    break
            if batch and not violations:
                rs = run_cases(prop, batch, root)
                searched += len(rs)
                bad = [(i, c, r) for i, c, r in rs if r.get("oracle") and not (kclass(c, r) in known_ids)]
                violations.extend(bad[:1])

        # known findings: replay each witness with the oracle
        kf_replayed = 0
        for k in known:
            if k.get("status", "known") != "known":
                continue
            kf_replayed += 1
            w = k.get("witness")
            still = None
            if w is not None:
                rs = run_cases(prop, [w], root, procs=1)
                still = bool(rs and rs[0][2].get("oracle"))
            if still or (still is None and k["id"] in known_hits):
                out_lines.append("KNOWN-FINDING: property=%s %s: %s" % (pid, k["id"], k["what"]))
            else:
                out_lines.append("RESOLVED-FINDING: property=%s %s no longer reproduces" % (pid, k["id"]))

        if violations:
            idx, case, r = violations[0]

            def still_fails(c):
                rr = run_cases(prop, [c], root, procs=1)
                return bool(rr and rr[0][2].get("oracle")) and kclass(c, rr[0][2]) not in known_ids

            small = case if replay else shrink_case(prop, case, still_fails)
            rr = run_cases(prop, [small], root, procs=1)[0][2]
            path = replay or write_replay(pid, {
                "property": pid, "case": small, "oracle": rr.get("oracle") or r["oracle"],
                "seed": seed, "tier": tier, "broken": broken,
                "how": "./check %s --replay <this file>" % pid})
            out_lines.append("VIOLATION property=%s replay=%s" % (pid, path))
            for msg in (rr.get("oracle") or r["oracle"])[:3]:
                out_lines.append("  " + msg)
            status = 1
        elif broken:
            payload = {"property": pid, "broken": broken, "seed": seed, "tier": tier,
                       "searched_cases": searched,
                       "note": "no concrete failing input found; the named theorem/correspondence no longer checks"}
            if unexplained:
                idx, case, r, d = unexplained[0]
                payload["case"] = case
                payload["disagreement"] = [list(x) for x in d[:5]]
            if "build_log" in lean:
                payload["build_log"] = lean["build_log"]
            path = replay or write_replay(pid, payload)
            out_lines.append("VIOLATION property=%s replay=%s no-failing-input-found" % (pid, path))
            for b in broken:
                out_lines.append("  " + b[:300])
            status = 1

        # ---------------- evidence ----------------
        keys = set()
        tagcount = {}
        for idx, case, r in results:
            if r["key"] is not None:
                keys.add(json.dumps(r["key"], sort_keys=True, default=str))
            for t in r["tags"]:
                tagcount[t] = tagcount.get(t, 0) + 1
        nthm = len(lean["theorems"])
        obligations = nthm + lean["examples"]
        discharged = obligations if lean["ok"] else 0
        samples = [c for _, c, _ in results[:: max(1, len(results) // 3)]][:3]
        axioms_used = sorted({a for v in lean["axioms"].values() for a in v})
        ev["coverage"] = {
            "obligations": obligations,
            "discharged": discharged,
            "theorems": lean["theorems"],
            "nonvacuity_examples": lean["examples"],
            "checker_cmd": "cd lean && lake build %s && lake env lean <#print axioms for every theorem of %s>"
                           % (prop.LEAN_MODULE, prop.LEAN_MODULE),
            "trusted_base": [
                "Lean 4.33.0 kernel",
                "axioms used by the property theorems: %s" % (", ".join(axioms_used) or "none"),
                "no sorry/admit/native_decide/bv_decide/own axioms (token grep over %d source files)" % len(lean.get("files", [])),
                ("leanchecker re-checked %d compiled modules: exit %d" % (lean["leanchecker"]["modules"], lean["leanchecker"]["exit"]))
                if lean.get("leanchecker") else "leanchecker: thorough tier only",
                "harness/extract.py (Extracted.lean regenerated from the imported package: %s)"
                % ("rewritten" if lean["extracted_rewritten"] else "unchanged"),
                "correspondence harness harness/props/%s.py + compiled Lean driver %s" % (pid.lower(), prop.DRIVER),
            ] + ["modelled, not verified: " + m for m in getattr(prop, "MODELLED", [])],
            "evaluations": len(results),
            "distinct_nontrivial": len(keys),
            "rule": getattr(prop, "RULE", ""),
            "samples": samples,
            "traces_validated_against_impl": len(results) - len(mism) if not corr_error else 0,
            "model_lines_compared": nlines,
            "disagreements": len(mism),
            "oracle_failures_in_known_classes": {k: 1 for k in known_hits},
            "known_findings_replayed": kf_replayed,
            "search_cases_after_break": searched,
            "distribution": dict(sorted(tagcount.items())),
            "lean_build_s": round(lean["build_s"], 2),
            "exhaustive": bool(getattr(prop, "EXHAUSTIVE", {}).get(tier, False)),
        }
        ev["assumptions"] = list(getattr(prop, "ASSUMPTIONS", []))
        ev["violations"] = 1 if status == 1 else 0
    except Exception as e:
        print("INTERNAL-ERROR property=%s %s: %s" % (pid, type(e).__name__, e), file=sys.stderr)
        traceback.print_exc()
        status = 2
    finally:
        shutil.rmtree(root, ignore_errors=True)
    ev["wall_s"] = round(time.time() - t0, 2)
    if status != 2 and not replay and not os.environ.get("VERIF_NO_EVIDENCE"):
        os.makedirs(os.path.join(VERIF, "evidence"), exist_ok=True)
        fn = os.path.join(VERIF, "evidence", pid + ".json")
        with open(fn + ".tmp", "w") as f:
            json.dump(ev, f, indent=1, default=str)
        os.replace(fn + ".tmp", fn)
    for l in out_lines:
        print(l)
    if status == 0:
        c = ev["coverage"]
        print("OK property=%s tier=%s seed=%d theorems=%d/%d cases=%d distinct=%d model-lines=%d wall=%.1fs" % (
            pid, tier, seed, c.get("discharged", 0), c.get("obligations", 0), c.get("evaluations", 0),
            c.get("distinct_nontrivial", 0), c.get("model_lines_compared", 0), ev["wall_s"]))
    return status


def main(argv=None):
    ap = argparse.ArgumentParser()
    ap.add_argument("prop")
    ap.add_argument("--tier", default=os.environ.get("VERIF_TIER", "quick"), choices=["quick", "thorough"])
    ap.add_argument("--seed", type=int, default=int(os.environ.get("VERIF_SEED", "0") or 0))
    ap.add_argument("--replay", default=None)
    a = ap.parse_args(argv)
    os.chdir(VERIF)
    return check("harness.props." + a.prop.lower(), a.tier, a.seed, a.replay)

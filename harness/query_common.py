"""Shared pieces of the C06 / C07 plug-ins: corpora and filters (generators), building a real
project on disk, the direct per-job reference evaluator of the documented query semantics
(independent of signac's code and of the Lean model), tables of CPython results handed to the
Lean driver (re.search, float(str), math.isclose), shrinking."""
import itertools
import json
import math
import os
import re

from harness.core import enc_val, exc_name

# --------------------------------------------------------------------------------------
# value universe
# --------------------------------------------------------------------------------------
INTS = [0, 1, 2, 3, -1, -2, 2 ** 53, 2 ** 53 + 1, 2 ** 63 - 1]   # incl. integers no double represents exactly
IFLOATS = [0.0, 1.0, 2.0, -1.0, -2.0, 9007199254740992.0]   # 2.0**53: equal to the int 2**53, NOT to 2**53 + 1
FLOATS = [0.5, 2.5, -0.5, 1e-9 + 1.0, 1e-10, 5e-10, 1.0 + 3e-10]   # incl. values within 1e-9 of 0 and of 1
BOOLS = [True, False]
STRS = ["a", "b", "ab", "1", ""]
LISTS = [[], [1], [1, 2], [1.0], ["a"], [True], [[1]], [1, "a"], [None],
         # mappings inside lists, the same mapping in two key orders
         [{"k": 1, "m": 2}], [{"m": 2, "k": 1}], [1, {"k": [1, {"z": 0, "y": 1}]}], [1, {"k": [1, {"y": 1, "z": 0}]}]]
SCALARS = INTS + IFLOATS + FLOATS + BOOLS + [None] + STRS
SP_KEYS = ["a", "b"]
DOC_KEYS = ["a", "d"]
# keys whose names merely begin with the letters of a namespace ("sp", "doc"): a prefix test on the
# raw key instead of a test on its first dotted component must show
LOOKALIKE_SP_KEYS = ["spin", "docs"]
LOOKALIKE_DOC_KEYS = ["spin"]


def rand_scalar(rng):
    r = rng.random()
    if r < 0.30:
        return rng.choice(INTS)
    if r < 0.45:
        return rng.choice(IFLOATS)
    if r < 0.55:
        return rng.choice(FLOATS)
    if r < 0.67:
        return rng.choice(BOOLS)
    if r < 0.75:
        return None
    return rng.choice(STRS)


def rand_val(rng, nested=True):
    r = rng.random()
    if r < 0.72:
        return rand_scalar(rng)
    if r < 0.86:
        v = rng.choice(LISTS)
        if rng.random() < 0.08:
            v = rng.choice([[{"x": 1}], [{"x": 1.0}], [{}], [{"x": [1]}]])
        return v
    if not nested:
        return rand_scalar(rng)
    if r < 0.9:
        return {}
    return {k: rand_val(rng, nested=rng.random() < 0.3) for k in ["x", "y"] if rng.random() < 0.75}


def rand_mapping(rng, keys, nested_key):
    d = {}
    for k in keys:
        if rng.random() < 0.75:
            d[k] = rand_val(rng)
    for k in (LOOKALIKE_SP_KEYS if nested_key == "n" else LOOKALIKE_DOC_KEYS):
        if rng.random() < 0.3:
            d[k] = rand_scalar(rng)
    if rng.random() < 0.6:
        sub = {k: rand_val(rng, nested=rng.random() < 0.25) for k in ["x", "y"] if rng.random() < 0.7}
        if rng.random() < 0.15:
            d[nested_key] = rand_scalar(rng)      # same key, not a mapping in this job
        else:
            d[nested_key] = sub
    return d


def rand_corpus(rng, nmax=6, typed=None):
    """0..nmax jobs: [statepoint, document | None].  `typed`: draw the values of the scalar keys
    from one family so that order comparisons are mostly well-typed."""
    n = rng.choice([0, 1, 2, 3, 3, 4, 4, 5, 6, 6][: nmax + 4]) if nmax >= 6 else rng.randint(0, nmax)
    jobs, seen = [], set()
    for _ in range(n * 3):
        if len(jobs) >= n:
            break
        sp = rand_mapping(rng, SP_KEYS, "n")
        if typed is not None:
            fam = {"num": INTS + IFLOATS + FLOATS + BOOLS, "str": STRS, "list": [[1], [1, 2], [2], [1.0], [], [{"k": 1, "m": 2}], [{"m": 2, "k": 1}],
                            [1, {"k": [1, {"z": 0, "y": 1}]}]]}[typed]
            for k in SP_KEYS + LOOKALIKE_SP_KEYS:
                if k in sp and not isinstance(sp[k], dict):
                    sp[k] = rng.choice(fam)
            if isinstance(sp.get("n"), dict):
                for k in sp["n"]:
                    if not isinstance(sp["n"][k], dict):
                        sp["n"][k] = rng.choice(fam)
        key = json.dumps(sp, sort_keys=True)
        if key in seen:
            continue
        seen.add(key)
        r = rng.random()
        if r < 0.25:
            doc = None
        else:
            doc = rand_mapping(rng, DOC_KEYS, "m")
            if typed is not None:
                for k in DOC_KEYS + LOOKALIKE_DOC_KEYS:
                    if k in doc and not isinstance(doc[k], dict):
                        doc[k] = rng.choice(fam)
                if isinstance(doc.get("m"), dict):
                    for k in doc["m"]:
                        if not isinstance(doc["m"][k], dict):
                            doc["m"][k] = rng.choice(fam)
        jobs.append([sp, doc])
    return jobs


# --------------------------------------------------------------------------------------
# filters
# --------------------------------------------------------------------------------------
CMP_OPS = ["$gt", "$gte", "$lt", "$lte"]
TYPE_NAMES = ["int", "float", "bool", "str", "list", "null"]
REGEXES = ["a", "^a", "b$", ".", "^$", "[0-9]"]
NEAR_ARGS = [1, 1.0, 0.5, [1], [2.4, 0.1], [1, 0.5, 0.5], [0, 0.0, 1.0], True, "1.0", [1, "0.5"],
             # every arity with values within the DEFAULT tolerances of stored values: [v] -> rel 1e-9, abs 0;
             # [v, rel] -> abs stays 0; [v, rel, abs]
             [1e-10, 0.01], [0.0, 0.05], [1.0, 0.0], [1.0, 1e-12], [0], [0.0], [1.0, 0.0, 1e-9], 0, 0.0]
# (spelling, namespace, path) of every key the small-scope grammar uses
KEY_SPELLINGS = ["a", "b", "sp.a", "n.x", "n.y", "sp.n.x", "n", "doc.a", "doc.d", "doc.m.x", "doc.m",
                 "spin", "sp.spin", "docs", "doc.spin"]


def atom_args(rng_or_none=None):
    """(operator or None for implicit equality, argument) — the small-scope operator table."""
    out = []
    vals = [0, 1, 2, -1, -2, 1.0, 2.0, -1.0, 0.5, True, False, None, "a", "ab", "1", "", [1], [1, 2], [1.0], [], ["a"]]
    for v in vals:
        out.append((None, v))
        out.append(("$eq", v))
        out.append(("$ne", v))
    for op in CMP_OPS:
        for v in [0, 1, 1.0, 1.5, -1, True, "a", "b", "", [1], [1, 2], [0]]:
            out.append((op, v))
    for op in ["$in", "$nin"]:
        for v in [[], [1], [1, "a"], [1.0, None], [True, 2], [[1], "ab"], ["a", "b", ""], [0, -1, -2]]:
            out.append((op, v))
    out += [("$exists", True), ("$exists", False)]
    out += [("$regex", p) for p in REGEXES]
    out += [("$type", t) for t in TYPE_NAMES]
    out += [("$near", a) for a in NEAR_ARGS]
    return out


ATOM_ARGS = atom_args()


def make_atom(key, op, arg, form):
    """form 0: {key: {op: arg}}; 1: {"key.op": arg}; 2: nested key mapping {"n": {"x": …}};
    3: namespace as mapping {"sp": {"a": …}}"""
    inner = arg if op is None else {op: arg}
    if form == 1 and op is not None:
        return {key + "." + op: arg}
    if form == 2 and "." in key:
        parts = key.split(".")
        v = inner
        for p in reversed(parts[1:]):
            v = {p: v}
        return {parts[0]: v}
    if form == 3:
        parts = key.split(".")
        if parts[0] not in ("sp", "doc"):
            parts = ["sp"] + parts
        v = inner
        for p in reversed(parts[1:]):
            v = {p: v}
        return {parts[0]: v}
    return {key: inner}


def rand_atom(rng, keys=KEY_SPELLINGS):
    key = rng.choice(keys)
    op, arg = rng.choice(ATOM_ARGS)
    if rng.random() < 0.25:
        # argument drawn from the value universe instead of the table
        if op in (None, "$eq", "$ne") or op in CMP_OPS:
            arg = rand_val(rng, nested=False)
        elif op in ("$in", "$nin"):
            arg = [rand_val(rng, nested=False) for _ in range(rng.randint(0, 3))]
    return make_atom(key, op, arg, rng.choice([0, 0, 1, 2, 3]))


def rand_filter(rng, depth):
    r = rng.random()
    if depth <= 0 or r < 0.35:
        f = rand_atom(rng)
        if rng.random() < 0.3:
            f.update(rand_atom(rng))
        return f
    f = {}
    if rng.random() < 0.5:
        f.update(rand_atom(rng))
    kinds = rng.sample(["$and", "$or", "$not"], rng.choice([1, 1, 1, 2]))
    for k in kinds:
        if k == "$not":
            f[k] = rand_filter(rng, depth - 1)
        else:
            f[k] = [rand_filter(rng, depth - 1) for _ in range(rng.choice([1, 2, 2, 3]))]
    if rng.random() < 0.05:
        f[rng.choice(["$and", "$or"])] = [{}]
    if rng.random() < 0.03:
        f["$not"] = {}
    return f


MALFORMED = [
    {"a": {}}, {"a": {"$foo": 1}}, {"a.$lt.b": 1}, {"a$b": 1}, {"a": {"$exists": 1}}, {"a": {"$exists": None}},
    {"$and": []}, {"$or": []}, {"$and": {"a": 1}}, {"$or": 1}, {"$and": [1]}, {"$not": 1}, {"$not": [{"a": 1}]},
    {"a": {"$in": 5}}, {"a": {"$in": "ab"}}, {"a": {"$nin": None}}, {"a": {"$in": {}}},
    {"a": {"$type": "foo"}}, {"a": {"$type": []}}, {"a": {"$type": {}}}, {"a": {"$type": 1}},
    {"a": {"$near": []}}, {"a": {"$near": [1, 2, 3, 4]}}, {"a": {"$near": "x"}}, {"a": {"$near": None}},
    {"a": {"$near": [1, -1.0]}}, {"a": {"$near": [[1]]}}, {"a": {"$near": [1, None]}},
    {"a": {"$regex": "("}}, {"a": {"$regex": 5}}, {"a": {"$regex": None}},
    {"a": [{"x": [1]}]}, {"a": {"$eq": {}}}, {"a": {"$lt": None}}, {"a": {"$lt": {}}},
    {"b": 12345, "a": {"$foo": 1}}, {"b": 12345, "$and": []}, {"b": 12345, "$not": {"a": {"$foo": 1}}},
    {"$or": [{"a": 1}, {"a": {"$foo": 2}}]}, {"sp": 1}, {"doc": {"$exists": True}}, {"sp": {}},
    {"$exists": True}, {"": 1}, {"a.": 1}, {".a": 1}, {"a..x": 1}, {"n.x.z": 1}, {"n.": {"$exists": True}},
]


def filter_depth(f):
    if not isinstance(f, dict):
        return 0
    d = 0
    for k, v in f.items():
        if k in ("$and", "$or") and isinstance(v, list):
            d = max([d] + [1 + filter_depth(x) for x in v])
        elif k == "$not":
            d = max(d, 1 + filter_depth(v))
    return d


def filter_ops(f, out=None):
    """operator names used anywhere in a filter (for distribution tags)"""
    out = set() if out is None else out
    if isinstance(f, dict):
        for k, v in f.items():
            last = k.split(".")[-1]
            if last.startswith("$"):
                out.add(last)
            elif not isinstance(v, dict) or not v:
                out.add("eq")
            filter_ops(v, out)
    elif isinstance(f, list):
        for x in f:
            filter_ops(x, out)
    return out


# --------------------------------------------------------------------------------------
# real project
# --------------------------------------------------------------------------------------
def build_project(ctx, jobs, name="q"):
    """Real project on disk with real jobs and documents.  Returns (dir, project, listing)
    where listing = [(id, sp, doc)] in the workspace listing order the code iterates in."""
    import signac

    d = ctx.fresh_dir(name)
    project = signac.init_project(d)
    by_id = {}
    for sp, doc in jobs:
        job = project.open_job(sp)
        job.init()
        if doc:
            job.document.reset(doc)
        elif doc is not None:
            # an empty document: the file exists and holds {}
            with open(os.path.join(job.path, "signac_job_document.json"), "w") as f:
                f.write("{}")
        by_id[job.id] = (sp, doc)
    fresh = signac.Project(d)
    listing = [(i, by_id[i][0], by_id[i][1]) for i in fresh._find_job_ids()]
    assert len(listing) == len(by_id)
    return d, fresh, listing


def impl_find(project, flt, order):
    """ids of Project.find_jobs(flt) canonicalised to listing order, or the exception kind"""
    try:
        ids = [job.id for job in project.find_jobs(flt)]
    except Exception as e:  # noqa
        return "err " + exc_name(e), None
    pos = {i: n for n, i in enumerate(order)}
    if len(set(ids)) != len(ids) or any(i not in pos for i in ids):
        return "ok ?dup-or-foreign:" + ",".join(ids), set(ids)
    return "ok " + ",".join(sorted(ids, key=pos.get)), set(ids)


# --------------------------------------------------------------------------------------
# tables of CPython results the Lean model is parametric in
# --------------------------------------------------------------------------------------
def walk_scalars(v, out):
    """scalars reachable through mappings only (what can become an index key)"""
    if isinstance(v, dict):
        for x in v.values():
            walk_scalars(x, out)
    elif not isinstance(v, list):
        out.append(v)


def collect_op_args(f, opname, out):
    if isinstance(f, dict):
        for k, v in f.items():
            if k == opname or k.endswith("." + opname):
                out.append(v)
            collect_op_args(v, opname, out)
    elif isinstance(f, list):
        for x in f:
            collect_op_args(x, opname, out)


def uniq(xs):
    seen, out = set(), []
    for x in xs:
        k = json.dumps(x, sort_keys=True) + type(x).__name__
        if k not in seen:
            seen.add(k)
            out.append(x)
    return out


def tables(listing, flt):
    scal = []
    for _, sp, doc in listing:
        walk_scalars(sp, scal)
        if doc is not None:
            walk_scalars(doc, scal)
    strs = uniq([s for s in scal if isinstance(s, str)])
    nums = uniq([x for x in scal if isinstance(x, (bool, int, float))])
    pats, nears = [], []
    collect_op_args(flt, "$regex", pats)
    collect_op_args(flt, "$near", nears)
    rx = []
    for p in uniq([p for p in pats if isinstance(p, str)]):
        for s in strs:
            try:
                r = "T" if re.search(p, s) else "F"
            except re.error:
                r = "E"
            rx.append([p, s, r])
    fstr, near = [], []
    for a in uniq(nears):
        parts = a if isinstance(a, list) else [a]
        for x in parts:
            if isinstance(x, str):
                try:
                    float(x)
                    fstr.append([x, True])
                except ValueError:
                    fstr.append([x, False])
        if not (1 <= len(parts) <= 3):
            continue
        try:
            fa = float(parts[0])
            rel = float(parts[1]) if len(parts) > 1 else 1e-9
            ab = float(parts[2]) if len(parts) > 2 else 0.0
        except (TypeError, ValueError):
            continue
        for v in nums:
            try:
                r = "T" if math.isclose(v, fa, rel_tol=rel, abs_tol=ab) else "F"
            except ValueError:
                r = "E"
            near.append([v, parts[0], parts[1] if len(parts) > 1 else None, parts[2] if len(parts) > 2 else None, r])
    return {"rx": rx, "fstr": fstr, "near": near}


def payload(listing, flt, extra=None):
    p = {"jobs": [[i, sp, doc] for i, sp, doc in listing], "filter": flt}
    p.update(tables(listing, flt))
    if extra:
        p.update(extra)
    return enc_val(p)


# --------------------------------------------------------------------------------------
# direct reference evaluator (documented semantics, one job at a time)
# --------------------------------------------------------------------------------------
class IllTyped(Exception):
    """the filter compares values Python cannot order / combine for this job"""


class Malformed(Exception):
    """not a filter of the documented grammar"""


_ABSENT = object()
_PYTYPES = {"int": int, "float": float, "bool": bool, "str": str, "list": list, "null": type(None)}
_OPS = {"$eq", "$ne", "$gt", "$gte", "$lt", "$lte", "$in", "$nin", "$exists", "$regex", "$type", "$near"}


def _resolve(data, path):
    v = data
    for p in path:
        if isinstance(v, dict) and p in v:
            v = v[p]
        else:
            return _ABSENT
    return v


def _atom(data, path, op, arg):
    for p in path:
        if "$" in p:
            raise Malformed("operator inside key")
    v = _resolve(data, path)
    if op is None or op == "$eq" or op == "$ne":
        if op is None and isinstance(arg, dict):
            raise Malformed("empty mapping as value")
        if v is _ABSENT:
            return False
        eq = (not isinstance(v, dict)) and v == arg
        return (not eq) if op == "$ne" else eq
    if op in ("$gt", "$gte", "$lt", "$lte"):
        if isinstance(arg, dict):
            raise Malformed("mapping as comparison argument")
        if v is _ABSENT:
            return False
        if isinstance(v, dict):
            raise IllTyped("mapping compared")
        try:
            if op == "$gt":
                return v > arg
            if op == "$gte":
                return v >= arg
            if op == "$lt":
                return v < arg
            return v <= arg
        except TypeError:
            raise IllTyped("unorderable")
    if op in ("$in", "$nin"):
        if not isinstance(arg, list):
            raise Malformed("$in needs a list")
        if v is _ABSENT:
            return False
        found = (not isinstance(v, dict)) and any(v == x for x in arg)
        return found if op == "$in" else not found
    if op == "$exists":
        if not isinstance(arg, bool):
            raise Malformed("$exists needs a bool")
        return (v is not _ABSENT) == arg
    if op == "$regex":
        if not isinstance(arg, str):
            raise Malformed("$regex needs a string")
        try:
            rx = re.compile(arg)
        except re.error:
            raise Malformed("invalid regex")
        return isinstance(v, str) and rx.search(v) is not None
    if op == "$type":
        if not isinstance(arg, str) or arg not in _PYTYPES:
            raise Malformed("$type needs a type name")
        return v is not _ABSENT and isinstance(v, _PYTYPES[arg])
    if op == "$near":
        parts = arg if isinstance(arg, list) else [arg]
        if not (1 <= len(parts) <= 3) or any(isinstance(x, (list, dict)) or x is None for x in parts):
            raise Malformed("$near argument")
        try:
            a = float(parts[0])
            rel = float(parts[1]) if len(parts) > 1 else 1e-9
            ab = float(parts[2]) if len(parts) > 2 else 0.0
        except ValueError:
            raise Malformed("$near argument")
        if rel < 0 or ab < 0:
            raise Malformed("negative tolerance")
        if v is _ABSENT:
            return False
        if not isinstance(v, (bool, int, float)):
            raise IllTyped("$near on a non-number")
        return math.isclose(v, a, rel_tol=rel, abs_tol=ab)
    raise Malformed("unknown operator " + op)


def _expr(data, path, value):
    """key path (already namespaced) against a value expression: nested mapping = more path / operators.
    Every atom is evaluated (no short circuit), so an ill-typed atom anywhere is reported."""
    if isinstance(value, dict) and value:
        res = True
        for k, v in value.items():
            parts = k.split(".")
            res = _expr(data, path + parts, v) and res
        return res
    if path and path[-1].startswith("$"):
        op = path[-1]
        if op not in _OPS:
            raise Malformed("unknown operator " + op)
        return _atom(data, path[:-1], op, value)
    return _atom(data, path, None, value)


def ref_eval(flt, sp, doc):
    """Does the job with this state point and document satisfy the filter?  (documented semantics)"""
    if not isinstance(flt, dict):
        raise Malformed("filter must be a mapping")
    data = {"sp": sp}
    if doc is not None:
        data["doc"] = doc
    res = True
    names = [k if (k.split(".", 1)[0] in ("sp", "doc")) else "sp." + k for k in flt if k not in ("$and", "$or", "$not")]
    if len(set(names)) != len(names):
        raise Malformed("one key given in two spellings")
    for k, v in flt.items():
        if k in ("$and", "$or"):
            if not isinstance(v, list) or not v:
                raise Malformed(k + " needs a non-empty list")
            rs = [ref_eval(x, sp, doc) if x else _truthy_empty(x) for x in v]
            res = (all(rs) if k == "$and" else any(rs)) and res
        elif k == "$not":
            if not isinstance(v, dict):
                raise Malformed("$not needs a mapping")
            res = (not (ref_eval(v, sp, doc) if v else True)) and res
        else:
            parts = k.split(".")
            if parts[0] not in ("sp", "doc"):
                parts = ["sp"] + parts
            res = _expr(data, parts, v) and res
    return res


def _truthy_empty(x):
    if isinstance(x, dict):
        return True     # the empty filter selects every job
    raise Malformed("operand must be a mapping")


def oracle_set(listing, flt):
    """(set of ids the reference accepts, None) or (None, reason) when the filter is ill-typed /
    outside the grammar for this corpus."""
    acc = set()
    reason = None
    try:
        for i, sp, doc in listing:
            if ref_eval(flt, sp, doc):
                acc.add(i)
        if not listing:
            ref_eval(flt, {}, None)      # static well-formedness
    except IllTyped as e:
        reason = "ill-typed: %s" % e
    except Malformed as e:
        reason = "malformed: %s" % e
    if reason:
        return None, reason
    return acc, None


# --------------------------------------------------------------------------------------
# known classes (Python twins of the hypotheses of the `_partial` theorems)
# --------------------------------------------------------------------------------------
def _slot_clash(x, y):
    """two values of different Python type that share a slot of the value index"""
    if type(x) is type(y) or isinstance(x, (list, dict)) or isinstance(y, (list, dict)):
        return False
    if not isinstance(x, (bool, int, float)) or not isinstance(y, (bool, int, float)) or x != y:
        return False
    kinds = {type(x), type(y)}
    if kinds == {bool, int}:
        return "F-6a"
    return False


def type_keys(f, prefix=None, out=None):
    """dotted, namespaced keys to which `$type` is applied anywhere in the filter tree"""
    out = [] if out is None else out
    if not isinstance(f, dict):
        return out
    for k, v in f.items():
        if prefix is None and k in ("$and", "$or"):
            for x in v if isinstance(v, list) else []:
                type_keys(x, None, out)
        elif prefix is None and k == "$not":
            type_keys(v, None, out)
        else:
            parts = k.split(".")
            if prefix is None and parts[0] not in ("sp", "doc"):
                parts = ["sp"] + parts
            path = (prefix or []) + parts
            if path[-1] == "$type":
                out.append(path[:-1])
            elif isinstance(v, dict):
                type_keys(v, path, out)
    return out


def clash_class(listing, flt):
    """F-6a: `$type` applied to a key under which two jobs hold values of different type in one
    index slot: a bool and an ==-equal int at top level (True/1, False/0)."""
    for path in type_keys(flt):
        vals = []
        for _, sp, doc in listing:
            data = {"sp": sp}
            if doc is not None:
                data["doc"] = doc
            v = _resolve(data, path)
            if v is not _ABSENT:
                vals.append(v)
        for x, y in itertools.combinations(vals, 2):
            c = _slot_clash(x, y)
            if c:
                return c
    return None


def known_class_of(listing, flt):
    """finding id whose class the (corpus, filter) pair belongs to, or None"""
    return clash_class(listing, flt)


# --------------------------------------------------------------------------------------
# shrinking
# --------------------------------------------------------------------------------------
def shrink_filter(f):
    if not isinstance(f, dict):
        return
    for k in list(f):
        if len(f) > 1:
            g = dict(f)
            del g[k]
            yield g
    for k, v in f.items():
        if k in ("$and", "$or") and isinstance(v, list):
            for x in v:
                if isinstance(x, dict) and x:
                    yield x
            for i in range(len(v)):
                if len(v) > 1:
                    yield dict(f, **{k: v[:i] + v[i + 1:]})
                for s in shrink_filter(v[i]):
                    yield dict(f, **{k: v[:i] + [s] + v[i + 1:]})
        elif k == "$not" and isinstance(v, dict):
            for s in shrink_filter(v):
                yield dict(f, **{k: s})
        elif isinstance(v, dict):
            for s in shrink_filter(v):
                if s:
                    yield dict(f, **{k: s})
        elif isinstance(v, list) and v:
            for i in range(len(v)):
                yield dict(f, **{k: v[:i] + v[i + 1:]})


def shrink_jobs(jobs):
    from harness import gen

    for i in range(len(jobs)):
        yield jobs[:i] + jobs[i + 1:]
    for i, (sp, doc) in enumerate(jobs):
        if doc is not None:
            yield jobs[:i] + [[sp, None]] + jobs[i + 1:]
            for s in gen.shrink_value(doc):
                yield jobs[:i] + [[sp, s]] + jobs[i + 1:]
        for s in gen.shrink_value(sp):
            if all(json.dumps(s, sort_keys=True) != json.dumps(o[0], sort_keys=True) for o in jobs):
                yield jobs[:i] + [[s, doc]] + jobs[i + 1:]


# --------------------------------------------------------------------------------------
# C07: equivalent spellings of one filter
# --------------------------------------------------------------------------------------
def _flat_atoms(parts, v, atoms):
    if isinstance(v, dict) and v:
        for k2, v2 in v.items():
            _flat_atoms(parts + k2.split("."), v2, atoms)
    else:
        atoms.append((parts, v))


def level_atoms(f):
    """(namespaced path incl. operator, leaf value) of the non-logical part of one filter level"""
    atoms = []
    for k, v in f.items():
        if k in ("$and", "$or", "$not"):
            continue
        parts = k.split(".")
        if parts[0] not in ("sp", "doc"):
            parts = ["sp"] + parts
        _flat_atoms(parts, v, atoms)
    return atoms


def _prefixed(k):
    return k if k.split(".", 1)[0] in ("sp", "doc") else "sp." + k


def respellable(f):
    """filters whose levels name every flattened key once, with non-empty path components and
    operators only in last position (the rewriting rules are defined for these)"""
    if not isinstance(f, dict):
        return False
    atoms = level_atoms(f)
    keys = [".".join(p) for p, _ in atoms]
    if len(set(keys)) != len(keys):
        return False
    tops = [_prefixed(k) for k in f if k not in ("$and", "$or", "$not")]
    if len(set(tops)) != len(tops):
        return False
    for p, _ in atoms:
        if any(x == "" for x in p) or any("$" in x for x in p[:-1]) or len(p) < 2:
            return False
        if p[-1].startswith("$") and len(p) < 3:
            return False
    for k in ("$and", "$or"):
        if k in f and not (isinstance(f[k], list) and all(respellable(x) for x in f[k])):
            return False
    if "$not" in f and not respellable(f["$not"]):
        return False
    return True


def _merge(dst, key, val):
    if key not in dst:
        dst[key] = val
        return True
    if isinstance(dst[key], dict) and isinstance(val, dict) and dst[key] and val:
        for k, v in val.items():
            if not _merge(dst[key], k, v):
                return False
        return True
    return False


def _spell_atom(parts, v, rng, drop_sp):
    if drop_sp and parts[0] == "sp" and parts[1] not in ("sp", "doc"):
        parts = parts[1:]
    # cut the path into segments: each segment becomes one (dotted) key of a nested mapping
    cuts = [i for i in range(1, len(parts)) if rng.random() < 0.45]
    segs, prev = [], 0
    for c in cuts + [len(parts)]:
        segs.append(".".join(parts[prev:c]))
        prev = c
    val = v
    for s in reversed(segs[1:]):
        val = {s: val}
    return segs[0], val


def respell(f, rng):
    """an equivalent spelling: nested <-> dotted keys, optional `sp.` prefix, operator as nested
    mapping <-> key suffix, namespace as mapping; recursively below the logical operators"""
    for attempt in range(6):
        out = {}
        ok = True
        uniform = None if attempt < 3 else rng.random() < 0.5
        entries = []
        for parts, v in level_atoms(f):
            drop = (rng.random() < 0.5) if uniform is None else uniform
            entries.append(_spell_atom(parts, v, rng, drop))
        rng.shuffle(entries)
        for k, v in entries:
            if not _merge(out, k, v):
                ok = False
                break
        tops = [_prefixed(k) for k in out]
        if ok and len(set(tops)) == len(tops):
            break
    else:
        out = {".".join(p): v for p, v in level_atoms(f)}
    items = list(out.items())
    for k in ("$and", "$or", "$not"):
        if k in f:
            sub = respell(f[k], rng) if k == "$not" else [respell(x, rng) for x in f[k]]
            items.insert(rng.randint(0, len(items)), (k, sub))
    return dict(items)


# --------------------------------------------------------------------------------------
# C07: canonical rendering of group labels (== labels render identically)
# --------------------------------------------------------------------------------------
def plain(x):
    """synced collections / mapping proxies / tuples -> plain JSON-like Python values"""
    if hasattr(x, "items"):
        return {k: plain(v) for k, v in x.items()}
    if isinstance(x, (list, tuple)) or (hasattr(x, "__iter__") and not isinstance(x, (str, bytes))):
        return [plain(v) for v in x]
    return x


def canon_label(x):
    if x is None:
        return "N"
    if isinstance(x, (bool, int)):
        return "#%d/0" % int(x)
    if isinstance(x, float):
        n, d = x.as_integer_ratio()
        return "#%d/%d" % (n, d.bit_length() - 1)
    if isinstance(x, str):
        return "s" + x.encode("utf-8").hex()
    if isinstance(x, list):
        return "[" + "".join(canon_label(v) + "," for v in x) + "]"
    if isinstance(x, dict):
        return "{" + "".join(k.encode("utf-8").hex() + ":" + canon_label(v) + "," for k, v in sorted(x.items())) + "}"
    return "?" + type(x).__name__

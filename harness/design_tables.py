"""Emit the theorem inventory (name + first docstring sentence) of every Properties file as markdown."""
import os
import re

VERIF = os.path.dirname(os.path.dirname(os.path.abspath(__file__)))
PROPS = os.path.join(VERIF, "lean", "Signac", "Properties")


def main():
    out = []
    for fn in sorted(os.listdir(PROPS)):
        if not fn.endswith(".lean"):
            continue
        text = open(os.path.join(PROPS, fn)).read()
        out.append("### %s" % fn[:-5])
        out.append("")
        for m in re.finditer(r"(/--(.*?)-/\s*)?^(theorem|def)\s+(\S+)", text, flags=re.S | re.M):
            kind, name = m.group(3), m.group(4)
            doc = (m.group(2) or "").strip().replace("\n", " ")
            doc = re.sub(r"\s+", " ", doc)
            if kind == "def" and not (name.endswith("_full") or "full" in name):
                continue
            # only docstrings directly attached
            out.append("* `%s`%s — %s" % (name, " (Prop kept, not a theorem)" if kind == "def" else "", doc[:400] if doc else ""))
        out.append("* non-vacuity examples: %d" % len(re.findall(r"^example\b", text, flags=re.M)))
        out.append("")
    print("\n".join(out))


if __name__ == "__main__":
    main()

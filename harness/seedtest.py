"""Run the registered checks against seeded changes (development aid, DESIGN §2.9).

usage: harness/seedtest.py <seed dir> [--tier quick] [--props C03,C04] [--tests]
A seed dir holds patch.diff, demo.py, meta.json ({"property": "Cxx", ...}).
The patch is applied to a scratch COPY of /repo's working tree (VERIF_REPO), never to /repo.
"""
import argparse
import json
import os
import shutil
import subprocess
import sys
import tempfile
import time

VERIF = os.path.dirname(os.path.dirname(os.path.abspath(__file__)))


def sh(cmd, **kw):
    return subprocess.run(cmd, shell=True, capture_output=True, text=True, **kw)


def main():
    ap = argparse.ArgumentParser()
    ap.add_argument("seed")
    ap.add_argument("--tier", default="quick")
    ap.add_argument("--props", default=None)
    ap.add_argument("--tests", action="store_true")
    ap.add_argument("--seeds", default="0")
    a = ap.parse_args()
    seed = os.path.abspath(a.seed)
    meta = json.load(open(os.path.join(seed, "meta.json")))
    props = a.props.split(",") if a.props else [meta["property"]]
    scratch = tempfile.mkdtemp(prefix="seedrun_", dir="/dev/shm")
    out = {"seed": os.path.basename(seed), "property": meta["property"], "runs": []}
    try:
        tree = os.path.join(scratch, "repo")
        shutil.copytree("/repo", tree, ignore=shutil.ignore_patterns(".git", "__pycache__", "*.egg-info"))
        r = sh("patch -p1 --no-backup-if-mismatch < %s" % os.path.join(seed, "patch.diff"), cwd=tree)
        if r.returncode != 0:
            out["error"] = "patch does not apply: " + (r.stdout + r.stderr)[-300:]
            print(json.dumps(out, indent=1))
            return 2
        env = dict(os.environ, PYTHONPATH=tree)
        d1 = sh("/venv/bin/python %s" % os.path.join(seed, "demo.py"), env=env, cwd=scratch)
        d0 = sh("/venv/bin/python %s" % os.path.join(seed, "demo.py"), env=dict(os.environ, PYTHONPATH="/repo"), cwd=scratch)
        out["demo_patched_exit"] = d1.returncode
        out["demo_clean_exit"] = d0.returncode
        if a.tests:
            t = sh("/venv/bin/python -m pytest -q -p no:cacheprovider --ignore=tests/test_shell.py 2>&1 | tail -1", env=env, cwd=tree)
            out["tests"] = t.stdout.strip()
        for p in props:
            for s in a.seeds.split(","):
                t0 = time.time()
                r = sh("./check %s --tier %s" % (p, a.tier), cwd=VERIF,
                       env=dict(os.environ, VERIF_REPO=tree, VERIF_SEED=s, VERIF_NO_EVIDENCE="1"))
                lines = [l for l in r.stdout.split("\n") if l.startswith("VIOLATION") or l.startswith("OK ") or l.startswith("  ")]
                out["runs"].append({"check": p, "seed": s, "exit": r.returncode, "wall": round(time.time() - t0, 1),
                                    "lines": [l[:300] for l in lines[:4]],
                                    "stderr": r.stderr[-300:] if r.returncode == 2 else ""})
    finally:
        shutil.rmtree(scratch, ignore_errors=True)
    print(json.dumps(out, indent=1))
    return 0


if __name__ == "__main__":
    sys.exit(main())

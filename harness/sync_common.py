"""Shared helper of the sync checks C13 / C14 / C15 (DESIGN §4).

* a small universe of project pairs + option combinations (``gen_case``),
* materialisation of a case on disk with explicit mtimes (``build_project``),
* byte snapshots of both project trees (``snapshot``) and the snapshot algebra the
  direct oracles are written in,
* the in-process run of the REAL signac sync entry points (``run_real``),
* the wire form of a (state, options) pair for the Lean driver ``drv_sync`` and the
  canonical rendering of the observed outcome / destination tree (``model_line`` /
  ``impl_line``).

Nothing here looks at the Lean model; the oracles in props/c13.py, c14.py, c15.py
state the properties on the snapshots only.
"""
import contextlib
import copy
import hashlib
import io
import json
import os
import sys
import zlib
import re

from harness import core
from harness.core import enc_val, exc_name, hx

FN_SP = "signac_statepoint.json"
FN_DOC = "signac_job_document.json"
FN_PDOC = "signac_project_document.json"
WS = "workspace"
T0 = 1_500_000_000  # explicit mtimes are T0 + small offsets: far away from "now"

# ----------------------------------------------------------------------------
# universe
# ----------------------------------------------------------------------------
SPS = [{"a": 0}, {"a": 1}, {"a": 2}, {"a": 3}, {"b": "x"}, {"a": 0, "b": "x"}]

TOP_FILES = ["f1", "f2", "data.txt", "skip.log", "a", "ab", "tags", "CVS", "notes", FN_SP + ".bak",
             "skipper", "f1", "f2",
             # names that are special to str.format / %-formatting / regular expressions / the shell
             "d{}.txt", "x{a}.dat", "100%s", "é b", "[b]*"]
DIRS = ["sub", "d", "sub/deep", "__pycache__", "sub/skipdir", "e"]
NESTED_FILES = ["sub/x", "sub/skip.log", "sub/deep/y", "d/tags", "d/z", "__pycache__/c.pyc", "sub/skipdir/w",
                "sub/" + FN_DOC, "e/skip.log", "sub/deep/a", "sub/{0}", "d/}{"]
CONTENTS = ["A", "B", "CC", "DD", "AAA", "BBB", ""]
MTIMES = [T0 - 100, T0, T0 + 100]
EXCLUDES = [None, None, "skip", r".*\.log", "a", ["skip", "tags"], r"sub", r"x$", ["data.txt"], r"deep", "signac", "s"]

DOCS = [
    None, None, {"x": 1}, {"x": 2}, {"x": 1, "y": "s"}, {"y": "t", "z": [1, 2]}, {"x": 1.0}, {"x": True},
    {"n": {"p": 1}}, {"n": {"p": 2, "q": 3}}, {"n": {"q": {"r": 1}}}, {"n": {"q": {"r": 2, "s": 0}}, "x": 1},
    {"n": 5}, {"n": {}}, {"n": "p"}, {"n": ["p"]}, {"z": [1, 2]}, {"z": [1, 3]}, {},
    {"n": {"p": 1, "q": {"r": 1}}, "x": 2, "w": None}, {"n": {"q": {"r": {"t": 1}}}}, {"n": {"q": {"r": {"t": 2}}}},
]
KEY_SETS = [[], ["x"], ["n.p"], ["n.q.r"], ["q.r"], ["x", "n.p", "n.q.r"], ["n"], ["z", "y"], ["n.q.r.t"], ["r.t"]]
KEY_REGEX = ["x", "n", r"n\.q", "q", ".*r$", "n.p", "zz", "", r".*\.t", ".*"]
STRATEGIES = [None, "always", "never", "update", "custom"]
DOC_SYNCS = ["default", "bykey_fn", "bykey_re", "update", "no_sync", "copy"]


def _normalise(files, dirs):
    """One consistent job layout: a name is one thing only, parents of everything are directories;
    the first claim of a path wins."""
    kind = {}

    def claim_dirs(parts):
        for i in range(1, len(parts) + 1):
            p = "/".join(parts[:i])
            if kind.get(p, "d") != "d":
                return False
        for i in range(1, len(parts) + 1):
            kind["/".join(parts[:i])] = "d"
        return True

    keep = []
    for f in files:
        parts = f[0].split("/")
        if f[0] in kind:
            continue
        if claim_dirs(parts[:-1]):
            kind[f[0]] = "f"
            keep.append(f)
    for d in dirs:
        if kind.get(d) == "f":
            continue
        claim_dirs(d.split("/"))
    return sorted(keep), sorted(p for p, k in kind.items() if k == "d")


IGNORABLE = ("tags", "CVS", "__pycache__", "d/tags", "__pycache__/c.pyc")


def _rand_job(rng, sp, rich):
    files, dirs = [], []
    # names from filecmp.DEFAULT_IGNORES only in a minority of the jobs
    ok = (lambda n: True) if rng.random() < 0.15 else (lambda n: n not in IGNORABLE)
    n_top = rng.choice([0, 1, 2, 3] if not rich else [1, 2, 3, 4])
    for name in rng.sample(TOP_FILES, n_top):
        if ok(name):
            files.append([name, rng.choice(CONTENTS), rng.choice(MTIMES)])
    if rng.random() < (0.7 if rich else 0.4):
        for d in rng.sample(DIRS, rng.choice([1, 1, 2, 3])):
            if ok(d):
                dirs.append(d)
        for name in rng.sample(NESTED_FILES, rng.choice([0, 1, 2, 3])):
            if ok(name):
                files.append([name, rng.choice(CONTENTS), rng.choice(MTIMES)])
    files, dirs = _normalise(files, dirs)
    doc = rng.choice(DOCS) if rng.random() < 0.75 else None
    return {"sp": sp, "files": files, "dirs": dirs, "doc": copy.deepcopy(doc), "doc_mt": rng.choice(MTIMES)}


def _variant_of(rng, job):
    """A destination job related to a source job: identical / differing / one-sided files."""
    files, dirs = [], []
    for name, content, mt in job["files"]:
        r = rng.random()
        if r < 0.30:
            files.append([name, content, mt])  # identical, same stat signature
        elif r < 0.40:
            files.append([name, content, rng.choice(MTIMES)])  # identical bytes
        elif r < 0.55:
            same_size = [c for c in CONTENTS if len(c) == len(content) and c != content]
            c2 = rng.choice(same_size) if same_size else content + "!"
            files.append([name, c2, mt if rng.random() < 0.5 else rng.choice(MTIMES)])  # same size, other bytes
        elif r < 0.75:
            files.append([name, rng.choice(CONTENTS), rng.choice(MTIMES)])
        elif r < 0.80:
            dirs.append(name)  # type clash: file in src, directory in dst
        # else: absent in dst
    for d in job["dirs"]:
        r = rng.random()
        if r < 0.6:
            dirs.append(d)
        elif r < 0.65:
            files.append([d, rng.choice(CONTENTS), rng.choice(MTIMES)])  # type clash the other way
    extra = _rand_job(rng, job["sp"], False)
    if rng.random() < 0.03:
        files.append([FN_DOC + "~", "{}", T0])  # a left-over document backup
    if job["files"] and rng.random() < 0.12:
        # destination-only files named like the temporary / partial / backup spelling of a SOURCE file
        # (download leftovers, editor backups): they are the destination's own files
        base_name = rng.choice(job["files"])[0]
        dn, bn = os.path.split(base_name)
        for pat in rng.sample(["%s.part", "%s.tmp", "%s~", ".%s.swp", "._%s", "%s.bak", "%s.partial", ".~%s"], 2):
            files.append([os.path.join(dn, pat % bn) if dn else pat % bn, "mine:" + pat, rng.choice(MTIMES)])
    files, dirs = _normalise(files + extra["files"], dirs + extra["dirs"])
    out = {"sp": job["sp"], "files": files, "dirs": dirs, "doc": None, "doc_mt": rng.choice(MTIMES)}
    r = rng.random()
    if r < 0.25:
        out["doc"] = copy.deepcopy(job["doc"])
    elif r < 0.85:
        out["doc"] = copy.deepcopy(rng.choice(DOCS))
    return out


def gen_case(rng, focus="c13"):
    """One project pair + options.  focus biases the options / layouts:
    c13: everything, mostly runs that can succeed; c14: conflicts; c15: dry_run / deep / exclude /
    selection / parallel."""
    n_src = rng.choice([0, 1, 1, 2, 2, 3, 4])
    src_sps = rng.sample(range(len(SPS)), n_src)
    src = {"doc": copy.deepcopy(rng.choice(DOCS)) if rng.random() < 0.5 else None,
           "jobs": [_rand_job(rng, sp, True) for sp in src_sps]}
    dst_jobs = []
    for j in src["jobs"]:
        r = rng.random()
        if r < (0.65 if focus != "c15" else 0.5):
            dst_jobs.append(_variant_of(rng, j))
    others = [i for i in range(len(SPS)) if i not in src_sps]
    for sp in rng.sample(others, min(len(others), rng.choice([0, 0, 1, 2]))):
        if len(dst_jobs) < 4:
            dst_jobs.append(_rand_job(rng, sp, False))
    dst = {"doc": None, "jobs": dst_jobs}
    r = rng.random()
    if r < 0.3:
        dst["doc"] = copy.deepcopy(src["doc"])
    elif r < 0.7:
        dst["doc"] = copy.deepcopy(rng.choice(DOCS))
    if rng.random() < 0.03:
        dst["stale_backup"] = True  # a left-over '<project document>~'
    if src["jobs"] and rng.random() < 0.12:
        src["stale_cache"] = True   # the source has a persistent state point cache that misses its newest job
    opts = {
        "strategy": rng.choice(STRATEGIES if focus != "c13" else STRATEGIES + ["always", "update", "never"]),
        "doc_sync": rng.choice(DOC_SYNCS + ["update", "bykey_fn", "no_sync"] if focus == "c13" else
                               DOC_SYNCS + ["default"] * 3 + ["bykey_fn", "bykey_re"] if focus == "c14" else DOC_SYNCS),
        "recursive": rng.random() < 0.6,
        "exclude": copy.deepcopy(rng.choice(EXCLUDES)),
        "selection": None,
        "check_schema": rng.random() < 0.15,
        "dry_run": False, "deep": False, "parallel": False,
    }
    if opts["strategy"] == "custom":
        names = sorted({f[0] for j in src["jobs"] for f in j["files"]})
        opts["custom_paths"] = sorted(rng.sample(names, len(names) // 2)) if names else []
    if opts["doc_sync"] == "bykey_fn":
        opts["keys"] = rng.choice(KEY_SETS)
    if opts["doc_sync"] == "bykey_re":
        opts["key_re"] = rng.choice(KEY_REGEX)
    if rng.random() < 0.3 and src["jobs"]:
        pool = [j["sp"] for j in src["jobs"]] + [j["sp"] for j in dst["jobs"]]
        k = rng.randint(0, min(3, len(pool)))
        sel = sorted(set(rng.sample(pool, k)))
        opts["selection"] = [rng.choice(["ids", "jobs"]), sel]
    if isinstance(opts["exclude"], list) and focus in ("c15", "c13") and rng.random() < 0.5:
        opts["exclude_as"] = rng.choice(["iter", "tuple"])
    if focus == "c15":
        opts["dry_run"] = rng.random() < 0.45
        opts["deep"] = rng.random() < 0.4
        opts["parallel"] = rng.choice([False, False, 2, True])
        if rng.random() < 0.5 and opts["exclude"] is None:
            opts["exclude"] = copy.deepcopy(rng.choice(EXCLUDES[2:]))
    elif focus == "c14":
        opts["deep"] = rng.random() < 0.15
        # conflicts must be reported (and documents rolled back) by the thread-pool driver as well
        opts["parallel"] = rng.choice([False, False, False, 2, True])
    entry = rng.choice(["Project.sync", "sync_projects", "Project.sync", "Job.sync", "sync_jobs"])
    case = {"src": src, "dst": dst, "opts": opts, "entry": entry}
    if entry == "Project.sync" and rng.random() < 0.25 and cli_expressible(opts):
        case["via_cli"] = True      # the same call spelled as `signac sync SRC DST ...` (argument parsing and glue)
    if entry in ("Job.sync", "sync_jobs"):
        if not src["jobs"]:
            case["entry"] = "Project.sync"
        else:
            sj = rng.choice(src["jobs"])["sp"]
            cands = [j["sp"] for j in dst["jobs"]]
            r = rng.random()
            if sj in cands and r < 0.6:
                dj = sj
            elif cands and r < 0.8:
                dj = rng.choice(cands)
            else:
                dj = rng.choice([i for i in range(len(SPS))])  # possibly not initialised in dst
            case["pair"] = [sj, dj]
            opts["selection"] = None
            opts["parallel"] = False
            opts["check_schema"] = False
    return case


# ----------------------------------------------------------------------------
# on disk
# ----------------------------------------------------------------------------
def build_project(root, spec):
    import signac

    p = signac.init_project(root)
    for n_, j in enumerate(spec["jobs"]):
        if spec.get("stale_cache") and n_ == len(spec["jobs"]) - 1:
            p.update_cache()        # written before the last job exists (also when it is the only one: an empty cache)
            if not os.path.exists(os.path.join(root, ".signac", "statepoint_cache.json.gz")):
                import gzip
                with gzip.open(os.path.join(root, ".signac", "statepoint_cache.json.gz"), "wb") as f:
                    f.write(b"{}")
        job = p.open_job(SPS[j["sp"]]).init()
        for d in j["dirs"]:
            os.makedirs(os.path.join(job.path, d), exist_ok=True)
        for name, content, mt in j["files"]:
            fn = os.path.join(job.path, name)
            os.makedirs(os.path.dirname(fn), exist_ok=True)
            with open(fn, "w") as f:
                f.write(content)
        if j["doc"] is not None:
            with open(os.path.join(job.path, FN_DOC), "w") as f:
                f.write(json.dumps(j["doc"]))
    if spec["doc"] is not None:
        with open(os.path.join(root, FN_PDOC), "w") as f:
            f.write(json.dumps(spec["doc"]))
    if spec.get("stale_backup"):
        with open(os.path.join(root, FN_PDOC + "~"), "w") as f:
            f.write("{}")
    # explicit mtimes, after all writes
    for j in spec["jobs"]:
        job = p.open_job(SPS[j["sp"]])
        for dp, dns, fns in os.walk(job.path):
            for fn in fns:
                os.utime(os.path.join(dp, fn), (T0, T0))
        for name, content, mt in j["files"]:
            os.utime(os.path.join(job.path, name), (mt, mt))
            if zlib.crc32((name + "\0" + content).encode()) % 6 == 0:
                os.chmod(os.path.join(job.path, name), 0o444)     # a write-protected result file
        if j["doc"] is not None:
            os.utime(os.path.join(job.path, FN_DOC), (j["doc_mt"], j["doc_mt"]))
    for fn in (FN_PDOC, FN_PDOC + "~"):
        if os.path.exists(os.path.join(root, fn)):
            os.utime(os.path.join(root, fn), (T0, T0))
    return p


def snapshot(root):
    """relpath -> ('d',) | ('f', sha1, size, mtime(float as filecmp sees it), bytes).  '.signac' is kept
    too (nothing may write there), as are stray files."""
    out = {}
    for dp, dns, fns in os.walk(root):
        dns.sort()
        rel = os.path.relpath(dp, root)
        for d in dns:
            out[os.path.normpath(os.path.join(rel, d))] = ("d",)
        for fn in fns:
            full = os.path.join(dp, fn)
            with open(full, "rb") as f:
                data = f.read()
            st = os.stat(full)
            out[os.path.normpath(os.path.join(rel, fn))] = (
                "f", hashlib.sha1(data).hexdigest(), st.st_size, st.st_mtime, data, st.st_mode & 0o7777)
    return out


def strip_times(snap):
    return {k: (v[:2] if v[0] == "f" else v) for k, v in snap.items()}


def job_id(sp_index):
    from signac.job import calc_id

    return calc_id(SPS[sp_index])


def is_docfile(rel):
    parts = rel.split(os.sep)
    return rel == FN_PDOC or (len(parts) == 3 and parts[0] == WS and parts[2] == FN_DOC)


def doc_of(snap, rel):
    """JSON value of a document file in a snapshot; {} when the file is missing."""
    v = snap.get(rel)
    if v is None or v[0] != "f":
        return {}
    return json.loads(v[4].decode())


# ----------------------------------------------------------------------------
# options -> real objects, and their harness-side (signac-free) meaning
# ----------------------------------------------------------------------------
def patterns_of(opts):
    e = opts.get("exclude")
    if e is None:
        return []
    return list(e) if isinstance(e, list) else [e]


def user_excluded(opts, name):
    return any(re.match(p, name) for p in patterns_of(opts))


def excluded(opts, name):
    """The documented exclusion rule: user patterns plus the state point file and (unless the
    document is copied as a file) the document file, all matched like the user patterns."""
    pats = patterns_of(opts) + [FN_SP] + ([] if opts["doc_sync"] == "copy" else [FN_DOC])
    return any(re.match(p, name) for p in pats)


def key_selected(opts, dotted):
    ds = opts["doc_sync"]
    if ds == "bykey_fn":
        return dotted in opts["keys"]
    if ds == "bykey_re":
        return re.match(opts["key_re"], dotted) is not None
    return False


def strategy_verdict(opts, relpath, src_mtime, dst_mtime):
    s = opts["strategy"]
    if s == "always":
        return True
    if s == "never":
        return False
    if s == "update":
        return src_mtime > dst_mtime
    if s == "custom":
        return relpath in opts["custom_paths"]
    return None


def cli_expressible(opts):
    """the options `signac sync` can spell"""
    if opts["strategy"] not in (None, "always", "never", "update"):
        return False
    if opts["doc_sync"] == "bykey_fn":
        if opts.get("keys"):
            return False            # only "no key" (--no-keys) is a finite set the command line can name
    elif opts["doc_sync"] == "bykey_re":
        if not opts.get("key_re") or opts["key_re"].startswith("-"):
            return False
    elif opts["doc_sync"] != "default":
        return False
    if opts.get("exclude") is not None and (not isinstance(opts["exclude"], str) or opts["exclude"].startswith("-")):
        return False
    sel = opts.get("selection")
    if sel is not None and not sel[1]:
        return False
    return True


def cli_argv(case, sroot, droot):
    opts = case["opts"]
    argv = ["sync", sroot, droot]
    flip = zlib.crc32(json.dumps(case, sort_keys=True).encode())
    if opts["strategy"] == "update" and flip % 2:
        argv.append("-u")
    elif opts["strategy"] is not None:
        argv += ["-s" if flip % 3 else "--strategy", opts["strategy"]]
    if opts["recursive"]:
        argv.append("-r" if flip % 5 else "--recursive")
    if opts.get("exclude") is not None:
        argv += ["-x", opts["exclude"]]
    if opts["doc_sync"] == "bykey_fn":
        argv.append("--no-keys")
    elif opts["doc_sync"] == "bykey_re":
        argv += (["--all-keys"] if opts["key_re"] == ".*" and flip % 2 else ["-k", opts["key_re"]])
    if not opts["check_schema"]:
        argv.append("-m" if flip % 7 else "--force")
    if opts["dry_run"]:
        argv.append("-n")
    if opts["deep"]:
        argv.append("-I")
    sel = opts.get("selection")
    if sel is not None:
        argv += ["-j"] + [job_id(i) for i in sel[1]]
    if opts["parallel"]:
        argv += ["--parallel"] + ([str(opts["parallel"])] if opts["parallel"] is not True else [])
    return argv


def _run_cli(case, sroot, droot):
    """`signac sync ...` in-process; the exception Project.sync raised (the command prints a message and exits 1)
    is recorded by a spy around the method, so that outcome and payload are compared exactly."""
    import signac
    import signac.__main__ as M

    seen = []
    orig = signac.Project.sync

    def spy(self, *a, **k):
        try:
            return orig(self, *a, **k)
        except Exception as e:  # noqa: BLE001
            seen.append(e)
            raise
    out, err = io.StringIO(), io.StringIO()
    old_argv = sys.argv
    code = 0
    signac.Project.sync = spy
    try:
        sys.argv = ["signac"] + cli_argv(case, sroot, droot)
        with contextlib.redirect_stdout(out), contextlib.redirect_stderr(err):
            try:
                M.main()
            except SystemExit as e:
                code = e.code if isinstance(e.code, int) else (0 if e.code is None else 1)
    finally:
        sys.argv = old_argv
        signac.Project.sync = orig
    if seen:
        raise seen[-1]
    if code != 0:
        raise RuntimeError("signac sync exited with %r without an exception from Project.sync: %s" % (
            code, err.getvalue().strip()[-300:]))
    return out.getvalue()


SPELLING_FAILS = []     # accepted spellings whose result differs from the list spelling's (oracle messages)
SPELLING_REFUSED = []   # exclude spellings the real code refused (TypeError, nothing written) in the current case
LAST_ASKED = []   # file names the file strategy of the last parallel real call was consulted about


def real_options(opts):
    """Fresh strategy objects for one call of the real code."""
    from signac import sync as S

    kw = {}
    s = opts["strategy"]
    if s == "always":
        kw["strategy"] = S.FileSync.always
    elif s == "never":
        kw["strategy"] = S.FileSync.never
    elif s == "update":
        kw["strategy"] = S.FileSync.update
    elif s == "custom":
        chosen = set(opts["custom_paths"])
        kw["strategy"] = lambda src, dst, fn: fn in chosen
    del LAST_ASKED[:]
    if opts.get("parallel") and "strategy" in kw:
        # in the thread pool: record what the file strategy is asked about, and let every worker but the first
        # pause at its first question, so that one job finishes while another is in the middle of its files
        import threading
        import time
        inner, seen = kw["strategy"], []

        def asking(src, dst, fn, _inner=inner):
            t = threading.get_ident()
            if t not in seen:
                seen.append(t)
                if len(seen) > 1:
                    time.sleep(0.03)
            LAST_ASKED.append(fn)
            return _inner(src, dst, fn)
        kw["strategy"] = asking
    ds = opts["doc_sync"]
    if ds == "bykey_fn":
        keys = set(opts["keys"])
        kw["doc_sync"] = S.DocSync.ByKey(lambda key: key in keys)
    elif ds == "bykey_re":
        kw["doc_sync"] = S.DocSync.ByKey(opts["key_re"])
    elif ds == "update":
        kw["doc_sync"] = S.DocSync.update
    elif ds == "no_sync":
        kw["doc_sync"] = S.DocSync.NO_SYNC
    elif ds == "copy":
        kw["doc_sync"] = S.DocSync.COPY
    if opts.get("exclude") is not None:
        kw["exclude"] = copy.deepcopy(opts["exclude"])
        if isinstance(kw["exclude"], list) and opts.get("exclude_as") == "iter":
            kw["exclude"] = iter(kw["exclude"])        # a one-shot iterable of patterns
        elif isinstance(kw["exclude"], list) and opts.get("exclude_as") == "tuple":
            kw["exclude"] = tuple(kw["exclude"])
    if opts["recursive"]:
        kw["recursive"] = True
    if opts["dry_run"]:
        kw["dry_run"] = True
    if opts["deep"]:
        kw["deep"] = True
    return kw


def _spelling_trial(case, sroot, droot):
    """The exclude patterns are documented as a str (a list is what the code handles).  Another container of
    the same patterns - a tuple, a one-shot iterator - is either refused (an exception; what is written before
    it is not judged, the type is not documented) or accepted, and then it must mean the same as the list:
    both spellings are run on identical scratch copies of the two projects and must end in the same outcome
    and the same destination tree.  The case itself then continues with the list spelling."""
    import shutil
    import tempfile

    base = tempfile.mkdtemp(prefix="spell", dir=os.path.dirname(os.path.abspath(droot)))
    try:
        out = {}
        for tag, spelling in (("as", case["opts"]["exclude_as"]), ("list", None)):
            c = copy.deepcopy(case)
            c["opts"]["exclude_as"] = spelling
            s2, d2 = os.path.join(base, tag + "s"), os.path.join(base, tag + "d")
            copy_tree_exact(sroot, s2)
            copy_tree_exact(droot, d2)
            k, pl, _ = _run_real_inner(c, s2, d2)
            out[tag] = (k, pl, strip_times(snapshot(d2)), strip_times(snapshot(s2)))
            if tag == "as" and k == "TypeError":
                SPELLING_REFUSED.append(spelling)
                return
        a, b = out["as"], out["list"]
        if a[0] != b[0] or a[2] != b[2] or a[3] != b[3]:
            diff = sorted(k for k in set(a[2]) | set(b[2]) if a[2].get(k) != b[2].get(k))
            SPELLING_FAILS.append(
                "exclude=%r passed as %s is accepted but does not mean what the list means: outcome %s vs %s, "
                "destination paths that differ: %s" % (case["opts"]["exclude"], case["opts"]["exclude_as"],
                                                      outcome_text(a[0], a[1]), outcome_text(b[0], b[1]), diff[:6]))
    finally:
        shutil.rmtree(base, ignore_errors=True)


def run_real(case, sroot, droot):
    """the real call with everything it prints captured (a dry run lists paths on stdout; in parallel mode the
    pool's threads may still print while an exception unwinds)"""
    old_si = sys.getswitchinterval()
    if case["opts"].get("parallel"):
        sys.setswitchinterval(1e-6)   # switch threads as often as possible: widens every race window
    try:
        with contextlib.redirect_stdout(io.StringIO()):
            if case["opts"].get("exclude_as") and isinstance(case["opts"].get("exclude"), list):
                _spelling_trial(case, sroot, droot)
                case = copy.deepcopy(case)
                case["opts"]["exclude_as"] = None
            return _run_real_inner(case, sroot, droot)
    finally:
        sys.setswitchinterval(old_si)


TOUCHED = []   # ids of the source jobs in the order the last real project-level call got to them


def _run_real_inner(case, sroot, droot):
    """One call of the real entry point; the order in which a project-level sync gets to the source jobs (an
    implementation detail the model takes as INPUT) is recorded by spies around Project.clone and sync_jobs."""
    import signac
    from signac import sync as S

    del TOUCHED[:]
    orig_clone, orig_sj = signac.Project.clone, S.sync_jobs

    def clone_spy(self, job, *a, **k):
        TOUCHED.append(job.id)
        return orig_clone(self, job, *a, **k)

    def sj_spy(src, dst, *a, **k):
        TOUCHED.append(src.id)
        return orig_sj(src, dst, *a, **k)
    project_level = case["entry"] in ("Project.sync", "sync_projects")
    if project_level:
        signac.Project.clone, S.sync_jobs = clone_spy, sj_spy
    try:
        return _run_real_inner2(case, sroot, droot)
    finally:
        signac.Project.clone, S.sync_jobs = orig_clone, orig_sj


def observed_order(listing):
    """the listing order of the source jobs, re-arranged so that the jobs the real call got to come first, in the
    order it got to them"""
    seen = []
    for i in TOUCHED:
        if i in listing and i not in seen:
            seen.append(i)
    return seen + [i for i in listing if i not in seen]


def _run_real_inner2(case, sroot, droot):
    """One call of the real entry point on the projects at sroot / droot.
    Returns (outcome, payload): outcome 'ok' or the exception kind."""
    import filecmp

    import signac
    from signac import sync as S

    filecmp.clear_cache()
    opts = case["opts"]
    kw = real_options(opts)
    src = signac.Project(sroot)
    dst = signac.Project(droot)
    entry = case["entry"]
    out = io.StringIO()
    try:
        with contextlib.redirect_stdout(out):
            if case.get("via_cli"):
                out.write(_run_cli(case, sroot, droot))
            elif entry in ("Project.sync", "sync_projects"):
                sel = opts.get("selection")
                if sel is not None:
                    ids = [job_id(i) for i in sel[1]]
                    kw["selection"] = ids if sel[0] == "ids" else [
                        (src if i in [j["sp"] for j in case["src"]["jobs"]] else dst).open_job(SPS[i])
                        for i in sel[1]]
                kw["check_schema"] = bool(opts["check_schema"])
                if opts["parallel"]:
                    kw["parallel"] = opts["parallel"]
                if entry == "Project.sync":
                    dst.sync(src, **kw)
                else:
                    S.sync_projects(src, dst, **kw)
            else:
                sj = src.open_job(SPS[case["pair"][0]])
                dj = dst.open_job(SPS[case["pair"][1]])
                if entry == "Job.sync":
                    dj.sync(sj, **kw)
                else:
                    S.sync_jobs(sj, dj, **kw)
        return "ok", None, out.getvalue()
    except Exception as e:  # canonical exception kind + payload
        if opts.get("parallel"):
            # the pool's worker threads may still be finishing their current job
            import threading
            import time

            t_end = time.time() + 5
            for t in threading.enumerate():
                if t is not threading.current_thread() and not t.daemon:
                    t.join(max(0.0, t_end - time.time()))
            for t in threading.enumerate():
                if t is not threading.current_thread() and t.daemon and t.name.startswith("Thread-"):
                    t.join(max(0.0, min(1.0, t_end - time.time())))
        kind = exc_name(e)
        payload = None
        if kind == "FileSyncConflict":
            payload = e.filename
        elif kind == "DocumentSyncConflict":
            payload = sorted(e.keys)
        else:
            payload = str(e)[:200]
        return kind, payload, out.getvalue()


# ----------------------------------------------------------------------------
# independent schema gate (flat state points of this universe only)
# ----------------------------------------------------------------------------
def schema_of(spec):
    s = {}
    for j in spec["jobs"]:
        for k, v in SPS[j["sp"]].items():
            s.setdefault((k, type(v).__name__), set()).add(v)
    return s


def schema_gate(case):
    a, b = schema_of(case["src"]), schema_of(case["dst"])
    return bool(a) and bool(b) and a != b


def schema_of_snapshot(snap):
    s = {}
    for rel, v in snap.items():
        parts = rel.split(os.sep)
        if len(parts) == 3 and parts[0] == WS and parts[2] == FN_SP and v[0] == "f":
            for k, val in json.loads(v[4].decode()).items():
                s.setdefault((k, type(val).__name__), set()).add(val)
    return s


def schema_gate_of(ssnap, dsnap):
    """the documented gate, recomputed from the state points on disk: both schemas non-empty and different"""
    a, b = schema_of_snapshot(ssnap), schema_of_snapshot(dsnap)
    return bool(a) and bool(b) and a != b


# ----------------------------------------------------------------------------
# wire form for drv_sync
# ----------------------------------------------------------------------------
def _tree(snap):
    root = {}
    for rel in sorted(snap):
        if rel.split(os.sep)[0] == ".signac":
            continue
        node = root
        parts = rel.split(os.sep)
        for p in parts[:-1]:
            node = node[p][1]
        v = snap[rel]
        node[parts[-1]] = ("d", {}) if v[0] == "d" else ("f", rel, v)
    return root


def _enc_node(node, cids, ranks, order=None):
    if node[0] == "f":
        _, rel, v = node
        head = "%d %d %d" % (cids[v[1]], v[2], ranks[v[3]])
        if is_docfile(rel):
            try:
                val = json.loads(v[4].decode())
                if isinstance(val, dict):
                    return "j " + head + " " + enc_val(val)
            except ValueError:
                pass
        return "f " + head
    ch = node[1]
    names = sorted(ch) if order is None else order
    return " ".join(["d %d" % len(names)] + ["S" + hx(n) + " " + _enc_node(ch[n], cids, ranks) for n in names])


def all_basenames(*snaps):
    names = set()
    for s in snaps:
        for rel in s:
            names.update(rel.split(os.sep))
    return sorted(names)


def all_doc_keys(*docs):
    """every dotted path and every 'parent.key' pair occurring in the documents"""
    out = set()

    def walk(d, path):
        for k, v in d.items():
            out.add(".".join(path + [k]))
            if path:
                out.add(path[-1] + "." + k)
            out.add(k)
            if isinstance(v, dict):
                walk(v, path + [k])

    for d in docs:
        if isinstance(d, dict):
            walk(d, [])
    return sorted(out)


def model_line(case, ssnap, dsnap, src_order, init_sp_sha=None):
    """The driver input for one sync call from the given (observed) state."""
    opts = case["opts"]
    shas = sorted({v[1] for s in (ssnap, dsnap) for v in s.values() if v[0] == "f"} |
                  ({init_sp_sha} if init_sp_sha else set()))
    cids = {h: i + 1 for i, h in enumerate(shas)}
    mts = sorted({v[3] for s in (ssnap, dsnap) for v in s.values() if v[0] == "f"})
    ranks = {m: i + 1 for i, m in enumerate(mts)}
    toks = ["sync"]
    s = opts["strategy"]
    if s is None:
        toks.append("sN")
    elif s == "custom":
        toks += ["sC", str(len(opts["custom_paths"]))] + ["S" + hx(p) for p in opts["custom_paths"]]
    else:
        toks.append({"always": "sA", "never": "sV", "update": "sU"}[s])
    ds = opts["doc_sync"]
    if ds in ("bykey_fn", "bykey_re"):
        docs = [doc_of(sn, rel) for sn in (ssnap, dsnap) for rel in sn if is_docfile(rel)]
        keys = all_doc_keys(*docs)
        toks += ["dK", str(len(keys))]
        for k in keys:
            toks += ["S" + hx(k), "T" if key_selected(opts, k) else "F"]
    else:
        toks.append({"default": "dD", "update": "dU", "no_sync": "dN", "copy": "dC"}[ds])
    toks.append("r1" if opts["recursive"] else "r0")
    names = all_basenames(ssnap, dsnap)
    toks += ["x", str(len(names))]
    for n in names:
        toks += ["S" + hx(n), "T" if user_excluded(opts, n) else "F",
                 "T" if re.match(FN_SP, n) else "F", "T" if re.match(FN_DOC, n) else "F"]
    sel = opts.get("selection")
    if sel is None or case["entry"] in ("Job.sync", "sync_jobs"):
        toks.append("lN")
    else:
        ids = sorted({job_id(i) for i in sel[1]})
        toks += ["lS", str(len(ids))] + ["S" + hx(i) for i in ids]
    toks.append("c1" if opts["check_schema"] else "c0")
    toks.append("g1" if schema_gate_of(ssnap, dsnap) else "g0")
    toks.append("y1" if opts["dry_run"] else "y0")
    toks.append("p1" if opts["deep"] else "p0")
    toks.append("n%d" % (len(mts) + 1))
    if case["entry"] in ("Job.sync", "sync_jobs"):
        toks += ["eJ", "S" + hx(job_id(case["pair"][0])), "S" + hx(job_id(case["pair"][1])),
                 str(cids[init_sp_sha]) if init_sp_sha else "0"]
    else:
        toks.append("eP")
    stree, dtree = _tree(ssnap), _tree(dsnap)
    # the source workspace is listed in the order the real project iterates its jobs
    def enc_proj(tree, order):
        names = sorted(tree)
        parts = ["d %d" % len(names)]
        for n in names:
            if n == WS and order is not None:
                parts.append("S" + hx(n) + " " + _enc_node(tree[n], cids, ranks, order=order))
            else:
                parts.append("S" + hx(n) + " " + _enc_node(tree[n], cids, ranks))
        return " ".join(parts)

    toks.append(enc_proj(stree, src_order))
    toks.append(enc_proj(dtree, None))
    return " ".join(toks), cids


def sort_deep(x):
    if isinstance(x, dict):
        return {k: sort_deep(x[k]) for k in sorted(x)}
    if isinstance(x, list):
        return [sort_deep(v) for v in x]
    return x


def render_tree(snap, cids):
    """Canonical text of a destination tree: what the driver prints after the outcome."""
    items = []
    for rel in sorted(snap, key=lambda r: r.split(os.sep)):
        if rel.split(os.sep)[0] == ".signac":
            continue
        v = snap[rel]
        p = hx("/".join(rel.split(os.sep)))
        if v[0] == "d":
            items.append(p + "=d")
        elif is_docfile(rel):
            try:
                val = json.loads(v[4].decode())
            except ValueError:
                val = None
            if isinstance(val, dict):
                items.append(p + "=j:" + enc_val(sort_deep(val)).replace(" ", ","))
            else:
                items.append(p + "=f%s" % cids.get(v[1], "?"))
        else:
            items.append(p + "=f%s" % cids.get(v[1], "?"))
    return " ".join(items)


def outcome_text(kind, payload):
    if kind == "FileSyncConflict":
        return "FileSyncConflict:" + hx(payload)
    if kind == "DocumentSyncConflict":
        return "DocumentSyncConflict:" + ",".join(hx(k) for k in payload)
    return kind


def src_iteration_order(sroot):
    import signac

    return [j.id for j in signac.Project(sroot)]


def init_sp_sha(ctx, sp_index):
    """bytes signac writes for the state point file of a freshly initialised job (used when a
    job-level sync has to initialise its destination)"""
    import signac

    d = ctx.fresh_dir("spx")
    try:
        p = signac.init_project(d)
        j = p.open_job(SPS[sp_index]).init()
        with open(os.path.join(j.path, FN_SP), "rb") as f:
            return hashlib.sha1(f.read()).hexdigest()
    finally:
        ctx.cleanup(d)


# ----------------------------------------------------------------------------
# one observed case: both projects built, the real call made (twice), everything recorded
# ----------------------------------------------------------------------------
def quiet_logging():
    import logging

    logging.getLogger("sync").setLevel(logging.CRITICAL)
    logging.getLogger("signac").setLevel(logging.CRITICAL)


class Obs:
    """Everything the oracles need about one case."""


def copy_tree_exact(src, dst):
    """byte- and mtime-exact copy of a project directory (for twin runs)"""
    import shutil

    shutil.copytree(src, dst, symlinks=True, copy_function=shutil.copy2)
    for dp, dns, fns in os.walk(src):
        for fn in fns:
            a = os.path.join(dp, fn)
            st = os.stat(a)
            os.utime(os.path.join(dst, os.path.relpath(a, src)), ns=(st.st_atime_ns, st.st_mtime_ns))


def observe(case, ctx, second_run=True, twin_opts=None):
    """Build the two projects, run the real entry point, snapshot before/after.
    twin_opts: option overrides for a second, independent run from an identical copy of the
    initial state (used by C15: the real run a dry run must agree with, the sequential run a
    parallel run must agree with)."""
    quiet_logging()
    o = Obs()
    o.case = case
    del SPELLING_REFUSED[:]
    del SPELLING_FAILS[:]
    sd, dd = ctx.fresh_dir("s"), ctx.fresh_dir("d")
    dirs = [sd, dd]
    try:
        build_project(sd, case["src"])
        build_project(dd, case["dst"])
        if twin_opts is not None:
            # the twin is built the same way (same creation order => same listing order)
            tsd, tdd = ctx.fresh_dir("ts"), ctx.fresh_dir("td")
            dirs += [tsd, tdd]
            build_project(tsd, case["src"])
            build_project(tdd, case["dst"])
        o.s0, o.d0 = snapshot(sd), snapshot(dd)
        o.listing = src_iteration_order(sd)
        o.init_sha = None
        if case["entry"] in ("Job.sync", "sync_jobs"):
            o.init_sha = init_sp_sha(ctx, case["pair"][1])
        o.kind1, o.payload1, o.stdout1 = run_real(case, sd, dd)
        o.asked1 = list(LAST_ASKED)
        o.order = observed_order(o.listing)
        o.line1, o.cids1 = model_line(case, o.s0, o.d0, o.order, o.init_sha)
        o.s1, o.d1 = snapshot(sd), snapshot(dd)
        o.impl1 = outcome_text(o.kind1, o.payload1) + ";" + render_tree(o.d1, o.cids1) + ";log-ok"
        o.second = False
        if second_run:
            o.second = True
            listing2 = src_iteration_order(sd)
            o.kind2, o.payload2, _ = run_real(case, sd, dd)
            o.order2 = observed_order(listing2)
            o.line2, o.cids2 = model_line(case, o.s1, o.d1, o.order2, o.init_sha)
            o.s2, o.d2 = snapshot(sd), snapshot(dd)
            o.impl2 = outcome_text(o.kind2, o.payload2) + ";" + render_tree(o.d2, o.cids2) + ";log-ok"
        o.twin = None
        if twin_opts is not None:
            tcase = copy.deepcopy(case)
            tcase["opts"].update(twin_opts)
            torder = src_iteration_order(tsd)
            def _nocache(sn):   # the gzip header of a state point cache carries its creation time
                return {k: v for k, v in strip_times(sn).items() if not k.endswith("statepoint_cache.json.gz")}
            same_start = _nocache(snapshot(tsd)) == _nocache(o.s0) and _nocache(snapshot(tdd)) == _nocache(o.d0)
            k, p, _ = run_real(tcase, tsd, tdd)
            o.twin = {"kind": k, "payload": p, "s": snapshot(tsd), "d": snapshot(tdd), "case": tcase,
                      "same_order": torder == o.listing, "same_start": same_start}
        return o
    finally:
        for d in dirs:
            ctx.cleanup(d)


# ----------------------------------------------------------------------------
# snapshot algebra: which job pairs are synchronised, which directories are compared
# ----------------------------------------------------------------------------
def default_ignores():
    import filecmp

    return list(filecmp.DEFAULT_IGNORES)


def job_pairs(case, s0, d0):
    """[(src job rel dir, dst job rel dir, cloned?)] the call is asked to synchronise"""
    if case["entry"] in ("Job.sync", "sync_jobs"):
        a = os.path.join(WS, job_id(case["pair"][0]))
        b = os.path.join(WS, job_id(case["pair"][1]))
        return [(a, b, b not in d0)] if a in s0 else []
    sel = case["opts"].get("selection")
    ids = None if sel is None else {job_id(i) for i in sel[1]}
    out = []
    for j in case["src"]["jobs"]:
        i = job_id(j["sp"])
        if ids is None or i in ids:
            r = os.path.join(WS, i)
            out.append((r, r, r not in d0))
    return out


def children(snap, d):
    pre = d + os.sep
    return sorted({k[len(pre):] for k in snap if k.startswith(pre) and os.sep not in k[len(pre):]})


def subtree(snap, d):
    pre = d + os.sep
    return {k[len(pre):]: v for k, v in snap.items() if k.startswith(pre)}


def compared_dirs(case, s0, d0, sjob, djob):
    """relative sub-directories ('' = job root) that `_sync_job_workspaces` compares for an
    existing pair of jobs: the root, and common sub-directories when recursive — per the
    documented behaviour, i.e. without filecmp's default ignore list"""
    out = [""]
    if not case["opts"]["recursive"]:
        return out
    todo = [""]
    while todo:
        sub = todo.pop()
        for n in children(s0, os.path.join(sjob, sub) if sub else sjob):
            a = os.path.join(sjob, sub, n) if sub else os.path.join(sjob, n)
            b = os.path.join(djob, sub, n) if sub else os.path.join(djob, n)
            if s0[a][0] == "d" and d0.get(b, ("-",))[0] == "d":
                r = os.path.join(sub, n) if sub else n
                out.append(r)
                todo.append(r)
    return out


def file_differs(opts_deep, a, b):
    """the documented comparison: deep = by content; otherwise filecmp's shallow rule"""
    if not opts_deep and (a[2], a[3]) == (b[2], b[3]):
        return False
    return a[1] != b[1]


# reference merge, written from the documentation of DocSync.ByKey (full dotted key paths)
def ref_bykey(src, dst, selected, path=(), short=False):
    """returns (merged, conflicts, mixed) — conflicts: dotted paths left alone because the key
    strategy did not select them; mixed: a mapping met a non-mapping (behaviour unspecified)"""
    out = copy.deepcopy(dst)
    conflicts, mixed = [], False
    for k, v in src.items():
        if k not in dst:
            out[k] = copy.deepcopy(v)
        elif tagged_eq(dst[k], v):
            continue
        elif isinstance(v, dict):
            if isinstance(dst[k], dict):
                m, c, mx = ref_bykey(v, dst[k], selected, path + (k,), short)
                out[k] = m
                conflicts += c
                mixed = mixed or mx
            else:
                mixed = True
        else:
            dotted = ".".join((path[-1:] if short else path) + (k,))
            if selected(dotted):
                out[k] = copy.deepcopy(v)
            else:
                conflicts.append(dotted)
    return out, conflicts, mixed


def tagged_eq(a, b):
    """Python's == on JSON-born values (1 == 1.0 == True)"""
    return a == b


def conflict_depth(src, dst, depth=1):
    """largest nesting depth at which a differing non-mapping value sits (0 = none)"""
    best = 0
    for k, v in src.items():
        if k in dst and dst[k] != v:
            if isinstance(v, dict):
                if isinstance(dst[k], dict):
                    best = max(best, conflict_depth(v, dst[k], depth + 1))
            else:
                best = max(best, depth)
    return best


def deep_conflict_keys(src, dst, path=()):
    """(full dotted, 'parent.key' as the unchanged code spells it) of every conflicting leaf"""
    out = []
    for k, v in src.items():
        if k in dst and dst[k] != v:
            if isinstance(v, dict):
                if isinstance(dst[k], dict):
                    out += deep_conflict_keys(v, dst[k], path + (k,))
            else:
                full = ".".join(path + (k,))
                short = ".".join(path[-1:] + (k,))
                out.append((full, short))
    return out


# ----------------------------------------------------------------------------
# trigger conditions of the defects listed in DESIGN §5 (used only by known_class)
# ----------------------------------------------------------------------------
def _j(*parts):
    return os.path.join(*[p for p in parts if p])


def doc_pairs(o):
    """(src doc file rel, dst doc file rel) that the call merges"""
    case = o.case
    out = []
    if case["entry"] in ("Project.sync", "sync_projects"):
        out.append((FN_PDOC, FN_PDOC))
    for sj, dj, cloned in job_pairs(case, o.s0, o.d0):
        if not (cloned and case["entry"] in ("Project.sync", "sync_projects")):
            out.append((_j(sj, FN_DOC), _j(dj, FN_DOC)))
    return out


def bykey_like(opts):
    return opts["doc_sync"] in ("default", "bykey_fn", "bykey_re")


def features(o):
    case, opts = o.case, o.case["opts"]
    s0, d0 = o.s0, o.d0
    ign = set(default_ignores())
    project_level = case["entry"] in ("Project.sync", "sync_projects")
    F = set()
    copies, trees = False, []
    for sj, dj, cloned in job_pairs(case, s0, d0):
        if cloned and project_level:
            trees.append((sj, "clone"))
            continue
        if cloned and opts["dry_run"]:
            F.add("F-15f")
            continue
        for sub in compared_dirs(case, s0, d0, sj, dj):
            for n in children(s0, _j(sj, sub)):
                a = s0[_j(sj, sub, n)]
                b = d0.get(_j(dj, sub, n))
                if excluded(opts, n):
                    continue
                differing = a[0] == "f" and b is not None and b[0] == "f" and file_differs(opts["deep"], a, b)
                if n in ign and (b is None or differing or (a[0] == "d" and b[0] == "d" and opts["recursive"])):
                    F.add("F-13")
                if b is None:
                    if a[0] == "f":
                        copies = True
                    elif opts["recursive"]:
                        trees.append((_j(sj, sub, n), "dir"))
                if differing and strategy_verdict(opts, _j(sub, n), a[3], b[3]):
                    copies = True
                if (project_level and opts["deep"] and a[0] == "f" and b is not None and b[0] == "f"
                        and (a[2], a[3]) == (b[2], b[3]) and a[1] != b[1]):
                    F.add("F-15d")
    for root, kind in trees:
        sub = subtree(s0, root)
        if any(v[0] == "f" for v in sub.values()):
            copies = True
        for rel in sub:
            comps = rel.split(os.sep)
            for i, comp in enumerate(comps):
                if kind == "clone" and user_excluded(opts, comp) and not (i == 0 and comp in (FN_SP, FN_DOC)):
                    F.add("F-15e")
                if kind == "dir" and excluded(opts, comp):
                    F.add("F-15e")
    if opts["dry_run"]:
        if copies:
            F.add("F-15a")
        if trees:
            F.add("F-15b")
    if opts["parallel"] and opts["doc_sync"] == "default" and project_level:
        # F-15g: one ByKey object (one `skipped_keys` set) is shared by all worker threads
        pairs = [(doc_of(s0, a), doc_of(d0, b)) for a, b in doc_pairs(o) if a != FN_PDOC]
        if len(pairs) >= 2 and any(ref_bykey(s, d, lambda k: False)[1] for s, d in pairs):
            F.add("F-15g")
    if bykey_like(opts):
        for sdoc, ddoc in doc_pairs(o):
            s, d = doc_of(s0, sdoc), doc_of(d0, ddoc)
            merged, _, _ = ref_bykey(s, d, lambda k: key_selected(opts, k))
            merged_short, _, _ = ref_bykey(s, d, lambda k: key_selected(opts, k), short=True)
            if opts["dry_run"] and any(isinstance(d.get(k), dict) and (merged[k] != d[k] or merged_short[k] != d[k])
                                       for k in d):
                F.add("F-15c")
            for full, short in deep_conflict_keys(s, d):
                if full != short and (opts["doc_sync"] == "default"
                                      or key_selected(opts, full) != key_selected(opts, short)):
                    F.add("F-14a")
    return sorted(F)


# ----------------------------------------------------------------------------
# direct oracles (snapshots only).  Each failure is (message, finding id that explains it | None)
# ----------------------------------------------------------------------------
def _under_ignored(rel_in_job, compared):
    """the entry of a compared directory through which `rel_in_job` is reached carries a name
    from filecmp.DEFAULT_IGNORES (F-13)"""
    ign = set(default_ignores())
    parts = rel_in_job.split(os.sep)
    for i, comp in enumerate(parts):
        parent = os.sep.join(parts[:i])
        if parent in compared and comp in ign:
            return True
    return False


LEGIT_OUTCOMES = ("ok", "FileSyncConflict", "DocumentSyncConflict", "SchemaSyncConflict",
                  "RuntimeError",   # a left-over document backup '<doc>~' blocks the merge
                  "TypeError")      # a document key holding a mapping on one side and a non-mapping on the other


def undocumented_outcome(o):
    """A sync either completes or reports one of the conflicts / refusals above; anything else (IndexError,
    KeyError, ValueError, OSError ... out of the blue) is a failure to synchronise a valid project pair."""
    if o.kind1 not in LEGIT_OUTCOMES:
        return [("the sync raised %s (%s): neither a success nor a conflict / refusal that sync reports" % (
            o.kind1, str(o.payload1)[:120]), None)]
    return []


def oracle_c13(o):
    """postcondition of a successful, real (not dry) sync"""
    case, opts = o.case, o.case["opts"]
    fails = []
    if strip_times(o.s1) != strip_times(o.s0) or o.s1 != o.s0:
        changed = sorted(k for k in set(o.s0) | set(o.s1) if o.s0.get(k) != o.s1.get(k))
        fails.append(("source project changed by the sync: %s" % changed[:4], None))
    fails += undocumented_outcome(o)
    if o.kind1 != "ok" or opts["dry_run"]:
        return fails
    project_level = case["entry"] in ("Project.sync", "sync_projects")
    s0, d0, d1 = o.s0, o.d0, o.d1
    for sj, dj, cloned in job_pairs(case, s0, d0):
        # (a) the job exists with the same state point
        if d1.get(dj, ("-",))[0] != "d":
            fails.append(("selected source job %s is missing in the destination" % sj, None))
            continue
        if project_level:
            a, b = s0.get(_j(sj, FN_SP)), d1.get(_j(dj, FN_SP))
            if a is None or b is None or a[1] != b[1]:
                fails.append(("job %s: state point file differs from the source's" % dj, None))
        # (b) reachable, non-excluded source files that were absent are now present byte-identically
        whole = cloned and project_level
        compared = set(compared_dirs(case, s0, d0, sj, dj)) if not whole else set()
        for rel, v in subtree(s0, sj).items():
            if v[0] != "f":
                continue
            parts = rel.split(os.sep)
            if whole:
                if any(user_excluded(opts, c) for c in parts):
                    continue
            else:
                if any(excluded(opts, c) for c in parts):
                    continue
                if len(parts) > 1 and not opts["recursive"]:
                    continue
            # an ancestor that is a non-directory in the destination blocks the path
            blocked = False
            for i in range(1, len(parts)):
                anc = d0.get(_j(dj, os.sep.join(parts[:i])))
                if anc is not None and anc[0] != "d":
                    blocked = True
            if blocked or _j(dj, rel) in d0:
                continue
            got = d1.get(_j(dj, rel))
            if got is None or got[0] != "f" or got[1] != v[1]:
                why = "F-13" if (not whole and _under_ignored(rel, compared)) else None
                fails.append(("source file %s (absent in destination before) is %s after the sync"
                              % (_j(sj, rel), "missing" if got is None else "different"), why))
    # (c) destination-only files and document keys are unchanged
    dst_docs = {b: a for a, b in doc_pairs(o)}
    src_of = {}
    for sj, dj, cloned in job_pairs(case, s0, d0):
        for rel in subtree(d0, dj):
            src_of[_j(dj, rel)] = _j(sj, rel)
    for rel, v in d0.items():
        if rel.split(os.sep)[0] == ".signac" and d1.get(rel) != v:
            fails.append(("destination file %s changed" % rel, None))
            continue
        counterpart = src_of.get(rel, rel if rel == FN_PDOC and project_level else None)
        if counterpart is None or counterpart not in s0:
            got = d1.get(rel)
            if got is None or got[:2] != v[:2]:
                fails.append(("destination-only %s %s was %s" % ("file" if v[0] == "f" else "directory", rel,
                                                                 "removed" if got is None else "modified"), None))
    if opts["doc_sync"] != "copy":
        # DocSync.update is a plain top-level dict.update: nested keys below an overwritten key go with it
        nested = opts["doc_sync"] != "update"
        for sdoc, ddoc in doc_pairs(o):
            fails += _dst_only_keys(doc_of(s0, sdoc), doc_of(d0, ddoc), doc_of(d1, ddoc), ddoc, (), nested)
    # (e) repeating the same sync changes nothing
    if o.second:
        # (with check_schema the gate may refuse the second call: the first one has changed the
        #  destination's schema, e.g. a selection cloned only some of the jobs — that is the gate)
        if o.kind2 != "ok" and not (o.kind2 == "SchemaSyncConflict" and opts["check_schema"]):
            fails.append(("repeating the successful sync raised %s" % o.kind2, None))
        if strip_times(o.d2) != strip_times(o.d1):
            ch = sorted(k for k in set(o.d1) | set(o.d2) if strip_times(o.d1).get(k) != strip_times(o.d2).get(k))
            fails.append(("repeating the sync changed the destination: %s" % ch[:4], None))
        if o.s2 != o.s0:
            fails.append(("source project changed by the repeated sync", None))
    return fails


def _dst_only_keys(s, d0, d1, where, path, nested=True):
    out = []
    for k, v in d0.items():
        if k not in s:
            if k not in d1 or core.tagged(d1[k]) != core.tagged(v):
                out.append(("document key %s (only in the destination) of %s changed" % (
                    ".".join(path + (k,)), where), None))
        elif nested and isinstance(v, dict) and isinstance(s[k], dict) and isinstance(d1.get(k), dict):
            out += _dst_only_keys(s[k], v, d1[k], where, path + (k,))
    return out


# ----------------------------------------------------------------------------
# result assembly, known classes, shrinking
# ----------------------------------------------------------------------------
def result(o, fails, model, impl):
    case, opts = o.case, o.case["opts"]
    fails = list(fails) + [(m, None) for m in dict.fromkeys(SPELLING_FAILS)]
    tags = ["entry=" + (case["entry"] if not case.get("via_cli") else "signac-sync-command-line"), "outcome=" + o.kind1, "strategy=%s" % opts["strategy"],
            "doc_sync=" + opts["doc_sync"], "recursive=%s" % opts["recursive"],
            "exclude=%s" % (opts["exclude"] is not None), "selection=%s" % (opts["selection"] is not None),
            "dry_run=%s" % opts["dry_run"], "deep=%s" % opts["deep"], "parallel=%s" % opts["parallel"],
            "njobs=%d/%d" % (len(case["src"]["jobs"]), len(case["dst"]["jobs"]))]
    feats = features(o)
    tags += ["feature=" + f for f in feats]
    if opts.get("exclude_as") and isinstance(opts.get("exclude"), list):
        tags.append("exclude-spelling=%s:%s" % (opts["exclude_as"], "refused" if SPELLING_REFUSED else "accepted"))
    pairs = job_pairs(case, o.s0, o.d0)
    nontrivial = bool(pairs) or (case["entry"] in ("Project.sync", "sync_projects")
                                 and doc_of(o.s0, FN_PDOC) != doc_of(o.d0, FN_PDOC))
    key = json.dumps(case, sort_keys=True) if nontrivial else None
    return {"model": model, "impl": impl, "oracle": [m for m, _ in fails], "explained": [w for _, w in fails],
            "features": feats, "tags": tags, "key": key}


def known_class(case, result):
    """A case belongs to a known class iff every oracle failure is explained by a finding whose
    trigger condition holds for the case; a correspondence-only disagreement iff some trigger holds."""
    feats = result.get("features") or []
    if result.get("oracle"):
        ex = result.get("explained") or []
        if ex and all(w is not None and w in feats for w in ex):
            return ex[0]
        return None
    return feats[0] if feats else None


def shrink_case(case):
    """smaller cases: drop jobs, files, directories, documents, options"""
    def variant(f):
        c = copy.deepcopy(case)
        f(c)
        return c

    for side in ("src", "dst"):
        for i in range(len(case[side]["jobs"])):
            if "pair" in case and side == "src" and case[side]["jobs"][i]["sp"] == case["pair"][0]:
                continue
            yield variant(lambda c: c[side]["jobs"].pop(i))
        if case[side]["doc"] is not None:
            yield variant(lambda c: c[side].__setitem__("doc", None))
        for i, j in enumerate(case[side]["jobs"]):
            for k in range(len(j["files"])):
                def f(c, i=i, k=k):
                    jj = c[side]["jobs"][i]
                    jj["files"].pop(k)
                    jj["files"], jj["dirs"] = _normalise(jj["files"], [d for d in jj["dirs"]])
                yield variant(f)
            for k in range(len(j["dirs"])):
                def g(c, i=i, k=k):
                    jj = c[side]["jobs"][i]
                    d = jj["dirs"][k]
                    if not any(f[0].startswith(d + "/") for f in jj["files"]) and \
                            not any(x.startswith(d + "/") for x in jj["dirs"]):
                        jj["dirs"].pop(k)
                yield variant(g)
            if j["doc"] is not None:
                yield variant(lambda c, i=i: c[side]["jobs"][i].__setitem__("doc", None))
                if isinstance(j["doc"], dict):
                    for kk in j["doc"]:
                        yield variant(lambda c, i=i, kk=kk: c[side]["jobs"][i]["doc"].pop(kk))
        if isinstance(case[side]["doc"], dict):
            for kk in case[side]["doc"]:
                yield variant(lambda c, kk=kk: c[side]["doc"].pop(kk))
    o = case["opts"]
    if o["exclude"] is not None:
        yield variant(lambda c: c["opts"].__setitem__("exclude", None))
    if o["selection"] is not None:
        yield variant(lambda c: c["opts"].__setitem__("selection", None))
    if o["recursive"]:
        yield variant(lambda c: c["opts"].__setitem__("recursive", False))
    if o["check_schema"]:
        yield variant(lambda c: c["opts"].__setitem__("check_schema", False))
    if o["parallel"]:
        yield variant(lambda c: c["opts"].__setitem__("parallel", False))
    if o["deep"]:
        yield variant(lambda c: c["opts"].__setitem__("deep", False))
    if o["doc_sync"] not in ("default", "no_sync"):
        yield variant(lambda c: c["opts"].__setitem__("doc_sync", "no_sync"))
    if o["strategy"] not in (None, "always"):
        yield variant(lambda c: c["opts"].__setitem__("strategy", "always"))
    if case.get("dst", {}).get("stale_backup"):
        yield variant(lambda c: c["dst"].pop("stale_backup"))


# ----------------------------------------------------------------------------
# C14: conflicts
# ----------------------------------------------------------------------------
def file_pairs(o):
    """(job-relative path, src rel, dst rel, src entry, dst entry, in an F-13 position?) for every
    regular file present on both sides in a directory pair the sync compares"""
    case, opts = o.case, o.case["opts"]
    ign = set(default_ignores())
    out = []
    for sj, dj, cloned in job_pairs(case, o.s0, o.d0):
        if cloned:
            continue
        for sub in compared_dirs(case, o.s0, o.d0, sj, dj):
            # below a common directory whose own name matches an exclude pattern the documentation
            # promises nothing either way: such pairs are "optional" (may be treated as conflicts)
            optional = any(excluded(opts, c) for c in sub.split(os.sep) if c)
            ignored_pos = any(c in ign for c in sub.split(os.sep) if c)
            for n in children(o.s0, _j(sj, sub)):
                a, b = o.s0[_j(sj, sub, n)], o.d0.get(_j(dj, sub, n))
                if sub == "" and n == FN_DOC and opts["doc_sync"] != "copy":
                    continue  # the job document: merged, not copied (oracle_docs)
                if a[0] == "f" and b is not None and b[0] == "f":
                    out.append((_j(sub, n), _j(sj, sub, n), _j(dj, sub, n), a, b, ignored_pos or n in ign, optional))
    return out


def oracle_files(o):
    """overwritten iff the strategy says so; no strategy => FileSyncConflict and untouched"""
    case, opts = o.case, o.case["opts"]
    if opts["dry_run"]:
        return []
    project_level = case["entry"] in ("Project.sync", "sync_projects")
    fails, conflicts, maybe = [], [], []
    for rel, srel, drel, a, b, f13, optional in file_pairs(o):
        name = os.path.basename(rel)
        after = o.d1.get(drel)
        differing = file_differs(opts["deep"], a, b) and not excluded(opts, name)
        if optional:
            if differing:
                maybe.append(name)
            if after is None or after[1] not in (a[1], b[1]):
                fails.append(("file %s is neither the old nor the source file" % drel, None))
            continue
        why = "F-13" if f13 else ("F-15d" if (project_level and opts["deep"] and (a[2], a[3]) == (b[2], b[3])) else None)
        if not differing:
            if after is None or after[:2] != b[:2]:
                fails.append(("file %s is not a conflict (%s) but was modified" % (
                    drel, "excluded" if excluded(opts, name) else "same under the comparison in force"), None))
            continue
        v = strategy_verdict(opts, rel, a[3], b[3])
        conflicts.append((rel, name, why))
        if v is None or v is False:
            if after is None or after[:2] != b[:2]:
                fails.append(("conflicting file %s was overwritten although the strategy %s" % (
                    drel, "is missing" if v is None else "says no"), None))
        elif o.kind1 == "ok":
            if after is None or after[1] != a[1]:
                fails.append(("conflicting file %s was not overwritten although the strategy says yes" % drel, why))
        elif after is None or after[1] not in (a[1], b[1]):
            fails.append(("conflicting file %s is neither the old nor the source file after a failed sync" % drel, None))
    if opts["strategy"] is None and conflicts:
        if o.kind1 == "ok":
            whys = {w for _, _, w in conflicts}
            fails.append(("no strategy, conflicting files %s, but the sync returned normally" % (
                [c[0] for c in conflicts][:3]), None if None in whys else sorted(whys)[0]))
        elif o.kind1 == "FileSyncConflict" and o.payload1 not in [c[1] for c in conflicts] + maybe:
            fails.append(("FileSyncConflict names %r which is not a conflicting file" % o.payload1, None))
    elif o.kind1 == "FileSyncConflict" and not (opts["strategy"] is None and o.payload1 in maybe):
        fails.append(("FileSyncConflict(%r) although %s" % (
            o.payload1, "a strategy was given" if opts["strategy"] is not None else "no file conflicts"), None))
    return fails


def oracle_docs(o):
    case, opts = o.case, o.case["opts"]
    if opts["dry_run"]:
        return []
    ds = opts["doc_sync"]
    fails = []
    raising = []   # conflict key sets of documents that must raise when reached
    for sdoc, ddoc in doc_pairs(o):
        s, d, after = doc_of(o.s0, sdoc), doc_of(o.d0, ddoc), doc_of(o.d1, ddoc)
        before_file, after_file = o.d0.get(ddoc), o.d1.get(ddoc)
        unchanged = (before_file is None and (after_file is None or after == {})) or (
            before_file is not None and after_file is not None and before_file[:2] == after_file[:2])
        if ddoc + "~" in o.d1 and ddoc + "~" not in o.d0:
            fails.append(("backup file %s~ left behind" % ddoc, None))
        if ds == "no_sync":
            if not unchanged:
                fails.append(("NO_SYNC but document %s changed" % ddoc, None))
        elif ds == "copy":
            # an ordinary file.  Job documents are judged by oracle_files (they are part of the job
            # directory walk); the project document is a file of its own: present on both sides with
            # different content it may be overwritten only if the file strategy says yes.
            if ddoc == FN_PDOC and before_file is not None and not unchanged:
                a, b = o.s0.get(sdoc), before_file
                v = strategy_verdict(opts, ddoc, a[3], b[3]) if a is not None else False
                if v is not True:
                    fails.append(("conflicting file %s was overwritten although the strategy %s" % (
                        ddoc, "is missing" if v is None else "says no"), None))
            continue
        elif ds == "update":
            new = dict(d)
            new.update(s)
            if s == d:
                new = d  # `src.document != dst.document` is false: nothing is done (1 == 1.0 == True)
            if o.kind1 == "ok":
                if core.tagged(after) != core.tagged(new):
                    fails.append(("DocSync.update: document %s is %r, expected %r" % (ddoc, after, new), None))
            elif core.tagged(after) not in (core.tagged(new), core.tagged(d)):
                fails.append(("document %s is neither old nor updated after a failed sync" % ddoc, None))
        else:
            merged, conflicts, mixed = ref_bykey(s, d, lambda k: key_selected(opts, k))
            if s == d:
                merged, conflicts, mixed = d, [], False
            deep3 = [(f, sh) for f, sh in deep_conflict_keys(s, d) if f != sh]
            why = "F-14a" if deep3 else None
            if mixed:
                if o.kind1 != "ok" and not (unchanged or core.tagged(after) == core.tagged(merged)):
                    fails.append(("document %s (mapping vs non-mapping) changed by a failed sync" % ddoc, None))
                continue
            if ds == "default" and conflicts:
                short = sorted({sh for f, sh in deep_conflict_keys(s, d) if f in conflicts})
                raising.append((ddoc, sorted(set(conflicts)), short if deep3 else None))
                if not unchanged:
                    fails.append(("document %s has conflicting keys %s and no key strategy, but it changed: %r -> %r"
                                  % (ddoc, conflicts, d, after), None))
            elif o.kind1 == "ok":
                if core.tagged(after) != core.tagged(merged):
                    fails.append(("document %s is %r after the merge, expected %r (conflicts overwritten iff "
                                  "selected)" % (ddoc, after, merged), why))
            elif core.tagged(after) not in (core.tagged(merged), core.tagged(d)):
                fails.append(("document %s is neither old nor merged after a failed sync: %r" % (ddoc, after), why))
    if raising and o.kind1 == "ok":
        fails.append(("documents %s have conflicts and there is no key strategy, but the sync returned normally"
                      % [r[0] for r in raising], None))
    if o.kind1 == "DocumentSyncConflict":
        if not any(keys == o.payload1 for _, keys, _ in raising):
            # F-14a: the unchanged code names a key at depth >= 3 by its last two components only
            why = "F-14a" if any(short == o.payload1 for _, _, short in raising) else None
            fails.append(("DocumentSyncConflict carries %s, the conflicting keys are %s" % (
                o.payload1, [r[1] for r in raising]), why))
    return fails


def oracle_c14(o):
    fails = []
    if o.s1 != o.s0:
        fails.append(("source project changed by the sync", None))
    return fails + undocumented_outcome(o) + oracle_files(o) + oracle_docs(o)


# ----------------------------------------------------------------------------
# C15: options
# ----------------------------------------------------------------------------
def copytree_roots(o):
    """destination-relative roots of the trees a real run copies with copytree"""
    case, opts = o.case, o.case["opts"]
    project_level = case["entry"] in ("Project.sync", "sync_projects")
    roots = []
    for sj, dj, cloned in job_pairs(case, o.s0, o.d0):
        if cloned:
            roots.append(dj)
            continue
        for sub in compared_dirs(case, o.s0, o.d0, sj, dj):
            for n in children(o.s0, _j(sj, sub)):
                if o.s0[_j(sj, sub, n)][0] == "d" and _j(dj, sub, n) not in o.d0:
                    roots.append(_j(dj, sub, n))
    return roots


def oracle_c15(o):
    case, opts = o.case, o.case["opts"]
    fails = []
    feats = features(o)
    roots = copytree_roots(o)

    def under_root(p):
        return any(p == r or p.startswith(r + os.sep) for r in roots)

    fails += undocumented_outcome(o)
    if o.s1 != o.s0:
        fails.append(("source project changed by the sync", None))
    internal = {FN_SP} | ({FN_DOC} if opts["doc_sync"] != "copy" else set())
    asked_internal = sorted({fn for fn in getattr(o, "asked1", []) if os.path.basename(fn) in internal
                             and os.sep not in fn})
    if asked_internal:
        fails.append(("the file strategy was consulted about %r: the state point and the document are never "
                      "synchronised like regular files (parallel run)" % asked_internal, None))
    if opts["dry_run"]:
        # bytes and structure of everything; mtimes of everything but document files (a failed
        # item assignment on a synced list re-saves the unchanged document: dependency behaviour)
        def view(snap):
            return {k: (v[:2] if (v[0] == "f" and is_docfile(k)) else (v[:4] + v[5:6])) for k, v in snap.items()}

        if view(o.d1) != view(o.d0):
            for p in sorted(k for k in set(o.d0) | set(o.d1) if view(o.d0).get(k) != view(o.d1).get(k))[:6]:
                if is_docfile(p) and "F-15c" in feats:
                    why = "F-15c"
                elif is_docfile(p) and p != FN_PDOC and "F-15g" in feats:
                    why = "F-15g"
                elif under_root(p) and "F-15b" in feats:
                    why = "F-15b"
                else:
                    why = None
                fails.append(("dry run changed the destination: %s %r -> %r" % (
                    p, ((o.d0.get(p) or ("absent",))[:2] + (o.d0.get(p) or ())[5:6]), ((o.d1.get(p) or ("absent",))[:2] + (o.d1.get(p) or ())[5:6])), why))
        if o.twin is not None:
            tk, tp = o.twin["kind"], o.twin["payload"]
            assert o.twin["same_start"], "twin projects differ from the originals"
            same = (o.kind1 == tk) and (o.payload1 == tp or tk not in ("FileSyncConflict", "DocumentSyncConflict")
                                        or not o.twin["same_order"])
            if not same:
                if o.kind1 == "TypeError" and "_safe_relpath" in str(o.payload1):
                    why = "F-15a"
                elif o.kind1 == "OSError(ENOENT)" and "F-15f" in feats:
                    why = "F-15f"
                elif "F-15g" in feats and "DocumentSyncConflict" in (o.kind1, tk):
                    why = "F-15g"
                else:
                    why = None
                fails.append(("dry run reports %s %r, the real run from the same state %s %r" % (
                    o.kind1, o.payload1, tk, tp), why))
        return fails
    # parallel = sequential
    if opts["parallel"] and o.twin is not None:
        if (o.kind1 == "ok") != (o.twin["kind"] == "ok"):
            fails.append(("parallel run: %s, sequential run: %s" % (o.kind1, o.twin["kind"]), None))
        elif o.kind1 == "ok" and strip_times(o.d1) != strip_times(o.twin["d"]):
            ch = sorted(k for k in set(o.d1) | set(o.twin["d"])
                        if strip_times(o.d1).get(k) != strip_times(o.twin["d"]).get(k))
            fails.append(("parallel and sequential runs give different destination trees: %s" % ch[:4], None))
    # deep: the file oracle with comparison by content
    fails += oracle_files(o)
    # exclude: names matching a user pattern are never created or modified
    if patterns_of(opts):
        for sj, dj, cloned in job_pairs(case, o.s0, o.d0):
            paths = set(subtree(o.d0, dj)) | set(subtree(o.d1, dj))
            for rel in sorted(paths):
                base = os.path.basename(rel)
                if not user_excluded(opts, base) or (os.sep not in rel and base in (FN_SP, FN_DOC)):
                    continue
                b, a = o.d0.get(_j(dj, rel)), o.d1.get(_j(dj, rel))
                if (b is None) != (a is None) or (b is not None and a[:2] != b[:2]):
                    fails.append(("excluded name %s was %s" % (_j(dj, rel), "created" if b is None else "modified"),
                                  "F-15e" if under_root(_j(dj, rel)) else None))
    # selection: jobs outside it are never created or modified
    sel = opts.get("selection")
    if sel is not None and case["entry"] in ("Project.sync", "sync_projects"):
        chosen = {job_id(i) for i in sel[1]}
        for p in sorted(set(o.d0) | set(o.d1)):
            parts = p.split(os.sep)
            if parts[0] == WS and len(parts) > 1 and parts[1] not in chosen:
                if strip_times(o.d0).get(p) != strip_times(o.d1).get(p):
                    fails.append(("job outside the selection touched: %s" % p, None))
    return fails

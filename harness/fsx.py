"""fsx — file-system step tracer, crash / fault injector and schedule stepper (DESIGN §2.4).

Everything is applied from the harness process; /repo is never touched.  While a
`Tracer` is active the following primitives are intercepted **for paths below the
tracer's root only** (everything else passes through untouched):

* `builtins.open` / `io.open` — a file opened for writing is returned as
  `io.BufferedWriter(TracedFileIO(path))` (text mode: wrapped once more in a
  `TextIOWrapper`).  Steps are recorded at the *raw* file level: `create` /
  `opena` / `openu` when the raw file is opened, `write` for every `write(2)`
  the buffer layer issues, `close` when the raw file is closed.  Data still
  sitting in a Python buffer is therefore *not* counted as written — a crash
  loses it, exactly as a real process death would.
* `os.replace, rename, remove, unlink, rmdir, mkdir, symlink, link, truncate,
  fsync` (also with `dir_fd=` as used by `shutil.rmtree`).  `os.makedirs` needs no
  wrapper of its own: it calls the patched `os.mkdir`, so it yields one `mkdir`
  step per directory actually attempted.
* `shutil._USE_CP_SENDFILE = False`, so `shutil.copyfile/copy2/copytree` go
  through the patched `open` (create/write/close per file).  `gzip.open` does too.
* optionally (off by default) reads and observers: `reads=True|predicate` records
  `openr` + one `read` per raw read of a file opened read-only;
  `observe=("listdir","scandir","stat","utime")` records those calls.

A **step** is one attempted primitive: `Step(i, kind, path, path2, n, sha1, off,
mode, err, injected, actor, data)`; `path`/`path2` are canonical: relative to the
root, `/`-separated, temp names `._<uuid4>_X` rewritten to `._TMP_X`.
`err` is the errno name when the primitive failed (naturally or injected).
Step indices count *all* recorded steps of the tracer, starting at 0.

Three ways to drive the code under test (all take `fn`, a zero-argument callable,
and `root`, the directory below which steps are recorded):

    run = fsx.record(fn, root)                      # in this process
    run = fsx.fork_run(fn, root)                    # in a forked child (parent's memory untouched)
    run = fsx.fork_run(fn, root, crash_at=k)        # child dies (os._exit) right BEFORE step k
    run = fsx.fork_run(fn, root, crash_at=k, torn=p)# ... after writing the first p bytes of write step k
    run = fsx.fork_run(fn, root, faults={k: errno.EIO})   # step k raises OSError instead of happening
    -> Run(status in {"done","exc","crashed","died","timeout"}, steps, value, exc, crash, exit_code)

    for k, p in fsx.crash_points(run.steps): ...    # every step, torn classes {1, half, all-but-one}, end

    snap = fsx.TreeSnapshot(root); ...; snap.restore()   # put the tree back (content + mtimes)

    sch = fsx.Scheduler(root, [fn0, fn1, ...], reads=True)   # forked actors, blocked before every step
    res = sch.run([0, 0, 1, 0, 1, ...])             # grant steps in this order; replayable
    # or step by hand:  sch.start(); sch.pending(); sch.grant(i); ...; sch.finish()

Assumptions of this instrumentation (trusted base of C10–C12): every primitive
is atomic w.r.t. the others at this granularity; `os.replace` is an atomic rename;
process death loses exactly the data not yet handed to `write(2)`.

Limits: `os.open/os.write` (fd level), `mmap`, `os.sendfile`, files opened through
`opener=`/file descriptors, and modules that bound `open`/`os.*` functions before
installation (e.g. `from os import replace`) are not seen.  signac and
synced_collections use none of these.

Self-test: `python harness/fsx.py --selftest`.
"""
import base64
import builtins
import errno as _errno
import hashlib
import io
import json
import os
import re
import select
import shutil
import signal
import sys
import threading
import time
import traceback

__all__ = [
    "Step", "Run", "Tracer", "TreeSnapshot", "Scheduler", "SchedResult", "SchedulerError",
    "record", "fork_run", "crash_points", "torn_offsets", "canon_name", "canon_path",
    "MUTATING", "OBSERVING", "CRASH_EXIT", "install", "uninstall", "selftest",
]

CRASH_EXIT = 77      # exit status of a child killed by crash injection
EXC_EXIT = 3         # exit status of a child whose fn raised

# kinds that may change the tree / kinds that only look at it
MUTATING = ("create", "opena", "openu", "write", "truncate", "close", "fsync", "replace", "rename",
            "unlink", "rmdir", "mkdir", "symlink", "link")
OBSERVING = ("openr", "read", "listdir", "scandir", "stat", "utime")

_UUID_TMP = re.compile(r"^\._[0-9a-f]{8}-[0-9a-f]{4}-[0-9a-f]{4}-[0-9a-f]{4}-[0-9a-f]{12}_")


def canon_name(name):
    """`._<uuid4>_X` -> `._TMP_X` (the temp names of synced_collections); other names unchanged."""
    return _UUID_TMP.sub("._TMP_", name)


def canon_path(root, path, dir_fd=None):
    """Canonical relative path of `path` below `root`, or None when it is outside."""
    try:
        p = os.fspath(path)
    except TypeError:
        return None
    if isinstance(p, bytes):
        p = os.fsdecode(p)
    if dir_fd is not None and not os.path.isabs(p):
        try:
            p = os.path.join(os.readlink("/proc/self/fd/%d" % dir_fd), p)
        except OSError:
            return None
    p = os.path.abspath(p)
    if p == root:
        return "."
    if not p.startswith(root + os.sep):
        return None
    return "/".join(canon_name(c) for c in p[len(root) + 1:].split(os.sep))


# ----------------------------------------------------------------------------
# steps
# ----------------------------------------------------------------------------
class Step:
    """One attempted file-system primitive (see module docstring)."""

    __slots__ = ("i", "kind", "path", "path2", "n", "sha1", "off", "mode", "err", "injected", "actor", "data")

    def __init__(self, i, kind, path, path2=None, n=None, sha1=None, off=None, mode=None, err=None,
                 injected=False, actor=None, data=None):
        self.i, self.kind, self.path, self.path2 = i, kind, path, path2
        self.n, self.sha1, self.off, self.mode = n, sha1, off, mode
        self.err, self.injected, self.actor, self.data = err, injected, actor, data

    @property
    def ok(self):
        return self.err is None

    @property
    def mutating(self):
        return self.kind in MUTATING

    def as_dict(self, with_data=False):
        d = {k: getattr(self, k) for k in self.__slots__ if k != "data" and getattr(self, k) not in (None, False)}
        d["i"] = self.i
        if with_data and self.data is not None:
            d["data"] = base64.b64encode(self.data).decode()
        return d

    @classmethod
    def from_dict(cls, d):
        d = dict(d)
        if d.get("data") is not None:
            d["data"] = base64.b64decode(d["data"])
        return cls(**{k: d.get(k) for k in cls.__slots__ if k in d})

    def brief(self):
        """Short human-readable form, e.g. `write ws/ab12/._TMP_doc.json [17]`."""
        s = "%s %s" % (self.kind, self.path)
        if self.path2 is not None:
            s += " -> %s" % self.path2
        if self.kind in ("write", "read", "truncate") and self.n is not None:
            s += " [%d]" % self.n
        if self.err:
            s += " !%s%s" % (self.err, "(injected)" if self.injected else "")
        return s

    def __repr__(self):
        return "<Step %d %s>" % (self.i, self.brief())

    def __eq__(self, other):
        return isinstance(other, Step) and self.as_dict() == other.as_dict()

    def shape(self):
        """(kind, path, path2, n, err) — what two runs of the same operation must agree on."""
        return (self.kind, self.path, self.path2, self.n, self.err)


class Run:
    """Outcome of record()/fork_run().

    status: "done" (fn returned; `value`), "exc" (fn raised; `exc` = {"name","msg","tb"}),
            "crashed" (crash injection fired; `crash` = (k, torn bytes written)),
            "died" (child vanished for another reason), "timeout".
    steps:  the steps recorded up to that point (a crashed step is not in the list)."""

    def __init__(self, status, steps, value=None, exc=None, crash=None, exit_code=None, pending=None):
        self.status, self.steps, self.value, self.exc = status, steps, value, exc
        self.crash, self.exit_code, self.pending = crash, exit_code, pending

    def __repr__(self):
        return "<Run %s steps=%d%s>" % (self.status, len(self.steps),
                                         " exc=%s" % self.exc["name"] if self.exc else "")

    def brief(self):
        return [s.brief() for s in self.steps]


# ----------------------------------------------------------------------------
# originals and wrappers
# ----------------------------------------------------------------------------
class _Orig:
    pass


_O = _Orig()
_OS_NAMES = ("replace", "rename", "remove", "unlink", "rmdir", "mkdir", "symlink", "link", "truncate",
             "fsync", "listdir", "scandir", "stat", "utime")
_installed = False
_ACTIVE = None          # the active Tracer of this process (at most one)
_saved_sendfile = None


def _capture():
    if getattr(builtins.open, "_fsx_wrapper", False):
        return  # re-import while installed: keep the originals captured first
    _O.open = builtins.open
    for n in _OS_NAMES:
        setattr(_O, n, getattr(os, n))


_capture()


def _errname(e):
    return _errno.errorcode.get(e.errno, str(e.errno)) if isinstance(e, OSError) and e.errno else type(e).__name__


class TracedFileIO(io.FileIO):
    """Raw file whose write/close (and, when watched, reads) are steps of the active tracer."""

    def __init__(self, tracer, path, cpath, mode):
        super().__init__(path, mode)
        self._fsx_tr = tracer
        self._fsx_cp = cpath
        self._fsx_w = mode != "r"

    def _live(self):
        return _ACTIVE is not None and _ACTIVE is self._fsx_tr

    def write(self, b):
        if not self._live():
            return io.FileIO.write(self, b)
        data = bytes(b)
        try:
            off = io.FileIO.tell(self)
        except OSError:
            off = None
        return self._fsx_tr._step("write", self._fsx_cp, data=data, off=off,
                                  do=lambda: io.FileIO.write(self, data),
                                  torn=lambda p: io.FileIO.write(self, data[:p]))

    def truncate(self, size=None):
        if not self._live():
            return io.FileIO.truncate(self, size)
        n = io.FileIO.tell(self) if size is None else size
        return self._fsx_tr._step("truncate", self._fsx_cp, n=n, do=lambda: io.FileIO.truncate(self, size))

    def close(self):
        if self.closed or not self._fsx_w or not self._live():
            return io.FileIO.close(self)
        return self._fsx_tr._step("close", self._fsx_cp, do=lambda: io.FileIO.close(self))

    # reads (only reached for files opened read-only under `reads=`)
    def _rd(self, do):
        if self._fsx_w or not self._live():
            return do()
        return self._fsx_tr._step("read", self._fsx_cp, do=do, is_read=True)

    def readall(self):
        return self._rd(lambda: io.FileIO.readall(self))

    def read(self, size=-1):
        return self._rd(lambda: io.FileIO.read(self, size))

    def readinto(self, b):
        return self._rd(lambda: io.FileIO.readinto(self, b))


def _w_open(file, mode="r", buffering=-1, encoding=None, errors=None, newline=None, closefd=True, opener=None):
    tr = _ACTIVE
    if tr is None or opener is not None or not closefd or isinstance(file, int):
        return _O.open(file, mode, buffering, encoding, errors, newline, closefd, opener)
    cp = canon_path(tr.root, file)
    if cp is None:
        return _O.open(file, mode, buffering, encoding, errors, newline, closefd, opener)
    writing = any(c in mode for c in "wax+")
    if not writing and not tr._watch_read(cp):
        return _O.open(file, mode, buffering, encoding, errors, newline, closefd, opener)
    return tr._open(os.fspath(file), cp, mode, buffering, encoding, errors, newline)


_w_open._fsx_wrapper = True


def _mk_two(name, kind):
    orig = getattr(_O, name)

    def w(src, dst, *a, src_dir_fd=None, dst_dir_fd=None, **kw):
        tr = _ACTIVE
        if tr is not None:
            c1, c2 = canon_path(tr.root, src, src_dir_fd), canon_path(tr.root, dst, dst_dir_fd)
            if c1 is not None or c2 is not None:
                c1 = c1 if c1 is not None else "<outside>/" + os.path.basename(os.fspath(src))
                c2 = c2 if c2 is not None else "<outside>/" + os.path.basename(os.fspath(dst))
                if src_dir_fd is not None:
                    kw["src_dir_fd"] = src_dir_fd
                if dst_dir_fd is not None:
                    kw["dst_dir_fd"] = dst_dir_fd
                return tr._step(kind, c1, path2=c2, do=lambda: orig(src, dst, *a, **kw), real=dst)
        if src_dir_fd is not None:
            kw["src_dir_fd"] = src_dir_fd
        if dst_dir_fd is not None:
            kw["dst_dir_fd"] = dst_dir_fd
        return orig(src, dst, *a, **kw)

    w.__name__ = name
    w._fsx_wrapper = True
    return w


def _mk_one(name, kind, observer=False):
    orig = getattr(_O, name)

    def w(path, *a, dir_fd=None, **kw):
        tr = _ACTIVE
        if dir_fd is not None:
            kw["dir_fd"] = dir_fd
        if tr is not None and not isinstance(path, int) and (not observer or kind in tr.observe):
            cp = canon_path(tr.root, path, dir_fd)
            if cp is not None:
                return tr._step(kind, cp, do=lambda: orig(path, *a, **kw), real=path, is_read=observer)
        return orig(path, *a, **kw)

    w.__name__ = name
    w._fsx_wrapper = True
    return w


def _w_symlink(src, dst, target_is_directory=False, *, dir_fd=None):
    tr = _ACTIVE
    kw = {} if dir_fd is None else {"dir_fd": dir_fd}
    if tr is not None:
        cp = canon_path(tr.root, dst, dir_fd)
        if cp is not None:
            return tr._step("symlink", cp, path2=os.fspath(src) if not isinstance(src, bytes) else os.fsdecode(src),
                            do=lambda: _O.symlink(src, dst, target_is_directory, **kw), real=dst)
    return _O.symlink(src, dst, target_is_directory, **kw)


_w_symlink._fsx_wrapper = True


def _w_truncate(path, length):
    tr = _ACTIVE
    if tr is not None and not isinstance(path, int):
        cp = canon_path(tr.root, path)
        if cp is not None:
            return tr._step("truncate", cp, n=length, do=lambda: _O.truncate(path, length), real=path)
    return _O.truncate(path, length)


_w_truncate._fsx_wrapper = True


def _w_fsync(fd):
    tr = _ACTIVE
    if tr is not None:
        try:
            n = fd if isinstance(fd, int) else fd.fileno()
            cp = canon_path(tr.root, os.readlink("/proc/self/fd/%d" % n))
        except (OSError, AttributeError, ValueError):
            cp = None
        if cp is not None:
            return tr._step("fsync", cp, do=lambda: _O.fsync(fd))
    return _O.fsync(fd)


_w_fsync._fsx_wrapper = True


def install():
    """Put the wrappers in place (idempotent).  They are inert while no Tracer is active."""
    global _installed, _saved_sendfile
    if _installed:
        return
    builtins.open = _w_open
    io.open = _w_open
    os.replace = _mk_two("replace", "replace")
    os.rename = _mk_two("rename", "rename")
    os.link = _mk_two("link", "link")
    os.remove = _mk_one("remove", "unlink")
    os.unlink = _mk_one("unlink", "unlink")
    os.rmdir = _mk_one("rmdir", "rmdir")
    os.mkdir = _mk_one("mkdir", "mkdir")
    os.symlink = _w_symlink
    os.truncate = _w_truncate
    os.fsync = _w_fsync
    os.listdir = _mk_one("listdir", "listdir", observer=True)
    os.scandir = _mk_one("scandir", "scandir", observer=True)
    os.stat = _mk_one("stat", "stat", observer=True)
    os.utime = _mk_one("utime", "utime", observer=True)
    _saved_sendfile = shutil._USE_CP_SENDFILE
    shutil._USE_CP_SENDFILE = False
    _installed = True


def uninstall():
    """Restore the original functions."""
    global _installed
    if not _installed:
        return
    builtins.open = _O.open
    io.open = _O.open
    for n in _OS_NAMES:
        setattr(os, n, getattr(_O, n))
    shutil._USE_CP_SENDFILE = _saved_sendfile
    _installed = False


# ----------------------------------------------------------------------------
# tracer
# ----------------------------------------------------------------------------
class Tracer:
    """Context manager: while active, the primitives below `root` are recorded in `.steps`.

    reads     False | True | predicate(canonical path) — also record read-only opens / raw reads
    observe   subset of ("listdir", "scandir", "stat", "utime") to record as steps
    crash_at  step index k: the process calls os._exit(CRASH_EXIT) right before performing step k
    torn      with crash_at on a `write` step of n bytes: first write min(torn, n-1) bytes of the chunk
    faults    {step index: errno} — that step raises OSError(errno) instead of being performed
    gate      callable(step-description dict) -> None | ("go",) | ("crash", torn) | ("fault", errno);
              called (blocking) before every step — used by Scheduler
    emit      callable(message dict) — every recorded step is also reported through it (fork_run)
    keep_data keep the bytes of write steps in Step.data (sha1 and length are always kept)
    """

    def __init__(self, root, *, reads=False, observe=(), crash_at=None, torn=None, faults=None,
                 gate=None, emit=None, keep_data=True, actor=None):
        self.root = os.path.abspath(root)
        self.reads, self.observe = reads, tuple(observe)
        self.crash_at, self.torn = crash_at, torn
        self.faults = {int(k): v for k, v in (faults or {}).items()}
        self.gate, self.emit, self.keep_data, self.actor = gate, emit, keep_data, actor
        self.steps = []
        self._n = 0
        self._lock = threading.RLock()
        self._did_install = False

    # -- activation
    def __enter__(self):
        global _ACTIVE
        if _ACTIVE is not None:
            raise RuntimeError("fsx: a Tracer is already active in this process")
        self._did_install = not _installed
        install()
        _ACTIVE = self
        return self

    def __exit__(self, *exc):
        global _ACTIVE
        _ACTIVE = None
        if self._did_install:
            uninstall()
        return False

    def _watch_read(self, cp):
        r = self.reads
        return bool(r(cp)) if callable(r) else bool(r)

    # -- open()
    def _open(self, path, cp, mode, buffering, encoding, errors, newline):
        binary = "b" in mode
        raw_mode = "".join(c for c in mode if c not in "bt")
        if not raw_mode or any(c not in "rwxa+" for c in raw_mode):
            raise ValueError("invalid mode: %r" % mode)
        if binary and (encoding is not None or errors is not None or newline is not None):
            raise ValueError("binary mode doesn't take encoding/errors/newline arguments")
        if "w" in raw_mode or "x" in raw_mode:
            kind = "create"
        elif "a" in raw_mode:
            kind = "opena"
        elif "+" in raw_mode:
            kind = "openu"
        else:
            kind = "openr"
        raw = self._step(kind, cp, mode=raw_mode, do=lambda: TracedFileIO(self, path, cp, raw_mode),
                         real=path, is_read=(kind == "openr"), keep_result=True)
        try:
            if buffering == 0:
                if not binary:
                    raise ValueError("can't have unbuffered text I/O")
                return raw
            line_buffering = buffering == 1 and not binary
            size = buffering if buffering > 1 else io.DEFAULT_BUFFER_SIZE
            if buffering < 0 or buffering == 1:
                try:
                    size = max(os.fstat(raw.fileno()).st_blksize, 1) or size
                except (OSError, AttributeError):
                    pass
            if "+" in raw_mode:
                buf = io.BufferedRandom(raw, size)
            elif kind == "openr":
                buf = io.BufferedReader(raw, size)
            else:
                buf = io.BufferedWriter(raw, size)
            if binary:
                return buf
            text = io.TextIOWrapper(buf, encoding, errors, newline, line_buffering)
            text.mode = mode
            return text
        except BaseException:
            io.FileIO.close(raw)
            raise

    # -- the one place where a step happens
    def _step(self, kind, path, path2=None, data=None, n=None, off=None, mode=None, do=None, torn=None,
              real=None, is_read=False, keep_result=False):
        with self._lock:
            k = self._n
            desc = {"i": k, "kind": kind, "path": path}
            if path2 is not None:
                desc["path2"] = path2
            if data is not None:
                desc["n"] = len(data)
            elif n is not None:
                desc["n"] = n
            if self.actor is not None:
                desc["actor"] = self.actor
            action = ("go",)
            if self.gate is not None:
                action = self.gate(desc) or ("go",)
            if action[0] == "crash" or self.crash_at == k:
                want = action[1] if action[0] == "crash" and len(action) > 1 else self.torn
                applied = 0
                if want and kind == "write" and torn is not None and len(data) > 1:
                    applied = max(0, min(int(want), len(data) - 1))
                    if applied:
                        applied = torn(applied) or 0
                if self.emit:
                    self.emit({"t": "crash", "k": k, "torn": applied, "step": desc})
                os._exit(CRASH_EXIT)
            self._n = k + 1
            st = Step(k, kind, path, path2, n=desc.get("n"), off=off, mode=mode, actor=self.actor)
            inj = action[1] if action[0] == "fault" else self.faults.get(k)
            if inj:
                st.err, st.injected = _errno.errorcode.get(inj, str(inj)), True
                if data is not None:
                    st.n, st.sha1 = 0, hashlib.sha1(b"").hexdigest()
                self._record(st)
                args = (inj, os.strerror(inj)) + ((os.fspath(real),) if real is not None else ())
                raise OSError(*args)
            try:
                r = do()
            except OSError as e:
                st.err = _errname(e)
                if data is not None:
                    st.n, st.sha1 = 0, hashlib.sha1(b"").hexdigest()
                self._record(st)
                raise
            if data is not None:  # write: r = bytes actually accepted by write(2)
                got = data if r is None or r >= len(data) else data[:r]
                st.n, st.sha1 = len(got), hashlib.sha1(got).hexdigest()
                if self.keep_data:
                    st.data = got
            elif kind == "read":
                if isinstance(r, (bytes, bytearray)):
                    st.n, st.sha1 = len(r), hashlib.sha1(r).hexdigest()
                elif isinstance(r, int):
                    st.n = r
            elif kind == "listdir" and isinstance(r, list):
                st.n = len(r)
            self._record(st)
            return r

    def _record(self, st):
        self.steps.append(st)
        if self.emit:
            self.emit({"t": "step", "step": st.as_dict(with_data=self.keep_data)})


# ----------------------------------------------------------------------------
# running things
# ----------------------------------------------------------------------------
def _jsonable(v):
    try:
        json.dumps(v)
        return v
    except (TypeError, ValueError):
        return repr(v)


def _exc_info(e):
    name = type(e).__name__
    if isinstance(e, OSError) and e.errno:
        name = "OSError(%s)" % _errno.errorcode.get(e.errno, e.errno) if name in (
            "OSError", "FileNotFoundError", "FileExistsError", "PermissionError", "NotADirectoryError",
            "IsADirectoryError") else name
    return {"name": name, "msg": str(e)[:500], "tb": traceback.format_exc()[-2000:]}


def record(fn, root, **opts):
    """Run fn() in this process under a Tracer(root, **opts); never raises for errors of fn."""
    tr = Tracer(root, **opts)
    try:
        with tr:
            v = fn()
        return Run("done", tr.steps, value=v)
    except Exception as e:
        return Run("exc", tr.steps, exc=_exc_info(e))


def _write_all(fd, b):
    while b:
        n = os.write(fd, b)
        b = b[n:]


def _child(fn, root, up, opts, gate=None, actor=None):
    """Body of a forked child: run fn under a tracer, report through fd `up`, never return."""
    code = 1
    try:
        def emit(msg):
            _write_all(up, (json.dumps(msg) + "\n").encode())

        tr = Tracer(root, emit=emit, gate=gate, actor=actor, **opts)
        try:
            with tr:
                v = fn()
            emit({"t": "done", "value": _jsonable(v)})
            code = 0
        except BaseException as e:  # noqa: BLE001 — includes SystemExit/KeyboardInterrupt of the code under test
            emit({"t": "exc", **_exc_info(e)})
            code = EXC_EXIT
    except BaseException:
        pass
    finally:
        os._exit(code)


class _LineReader:
    def __init__(self, fd):
        self.fd, self.buf, self.eof = fd, b"", False

    def next(self, deadline):
        """Next JSON message, None at EOF; raises TimeoutError."""
        while b"\n" not in self.buf:
            if self.eof:
                return None
            left = deadline - time.time()
            if left <= 0:
                raise TimeoutError()
            r, _, _ = select.select([self.fd], [], [], min(left, 1.0))
            if not r:
                continue
            chunk = os.read(self.fd, 1 << 16)
            if not chunk:
                self.eof = True
                return None
            self.buf += chunk
        line, self.buf = self.buf.split(b"\n", 1)
        return json.loads(line)


def _reap(pid, kill=False):
    if kill:
        try:
            os.kill(pid, signal.SIGKILL)
        except OSError:
            pass
    try:
        _, st = os.waitpid(pid, 0)
    except ChildProcessError:
        return None
    return os.waitstatus_to_exitcode(st)


def fork_run(fn, root, *, crash_at=None, torn=None, faults=None, reads=False, observe=(),
             keep_data=False, timeout=120.0):
    """Run fn() in a forked child under a Tracer; the parent's memory is unaffected.

    crash_at / torn / faults / reads / observe / keep_data: see Tracer.  Returns a Run.
    The value returned by fn must be JSON-serialisable (otherwise its repr is returned)."""
    root = os.path.abspath(root)
    up_r, up_w = os.pipe()
    sys.stdout.flush()
    sys.stderr.flush()
    pid = os.fork()
    if pid == 0:
        os.close(up_r)
        _child(fn, root, up_w, dict(crash_at=crash_at, torn=torn, faults=faults, reads=reads,
                                    observe=observe, keep_data=keep_data))
    os.close(up_w)
    rd = _LineReader(up_r)
    steps, status, value, exc, crash = [], None, None, None, None
    deadline = time.time() + timeout
    try:
        while True:
            try:
                m = rd.next(deadline)
            except TimeoutError:
                code = _reap(pid, kill=True)
                return Run("timeout", steps, exit_code=code)
            if m is None:
                break
            if m["t"] == "step":
                steps.append(Step.from_dict(m["step"]))
            elif m["t"] == "done":
                status, value = "done", m.get("value")
            elif m["t"] == "exc":
                status, exc = "exc", {k: m.get(k) for k in ("name", "msg", "tb")}
            elif m["t"] == "crash":
                status, crash = "crashed", (m["k"], m.get("torn") or 0)
    finally:
        os.close(up_r)
    code = _reap(pid)
    if status is None or (status == "crashed" and code != CRASH_EXIT):
        status = "died"
    return Run(status, steps, value=value, exc=exc, crash=crash, exit_code=code)


def torn_offsets(n, classes=("1", "half", "all-but-one")):
    """Byte counts p with 0 < p < n for the torn-write classes (sorted, distinct)."""
    want = {"1": 1, "half": n // 2, "all-but-one": n - 1}
    out = set()
    for c in classes:
        p = want[c] if c in want else int(c)
        if 0 < p < n:
            out.add(p)
    return sorted(out)


def crash_points(steps, classes=("1", "half", "all-but-one"), end=True, only_ok=True):
    """All (k, torn) crash points of a recorded trace: (k, 0) = die right before step k (prefix class 0),
    (k, p) = die after p bytes of write step k, and with `end` the point (len(steps), 0) = no crash."""
    pts = []
    for s in steps:
        pts.append((s.i, 0))
        if s.kind == "write" and (s.ok or not only_ok) and s.n:
            pts.extend((s.i, p) for p in torn_offsets(s.n, classes))
    if end:
        pts.append((len(steps), 0))
    return pts


# ----------------------------------------------------------------------------
# tree snapshots
# ----------------------------------------------------------------------------
class TreeSnapshot:
    """In-memory copy of a directory tree: `entries[rel] = ("d",) | ("f", bytes) | ("l", target)`
    plus modes and (a/m)times; `restore()` makes the tree identical again (content, kinds, mtimes)."""

    def __init__(self, root):
        self.root = os.path.abspath(root)
        self.entries, self.meta = self._walk(self.root)

    @staticmethod
    def _walk(root):
        entries, meta = {}, {}
        stack = [""]
        while stack:
            rel = stack.pop()
            full = os.path.join(root, rel) if rel else root
            with _O.scandir(full) as it:
                names = sorted(e.name for e in it)
            for nm in names:
                r = nm if not rel else rel + "/" + nm
                f = os.path.join(full, nm)
                st = os.lstat(f)
                meta[r] = (st.st_mode & 0o7777, st.st_atime_ns, st.st_mtime_ns)
                if os.path.islink(f):
                    entries[r] = ("l", os.readlink(f))
                elif os.path.isdir(f):
                    entries[r] = ("d",)
                    stack.append(r)
                else:
                    with _O.open(f, "rb") as fh:
                        entries[r] = ("f", fh.read())
        return entries, meta

    def files(self):
        return {r: e[1] for r, e in self.entries.items() if e[0] == "f"}

    def listing(self, canon=True):
        """Sorted [(canonical rel path, kind, sha1|target)]."""
        out = []
        for r, e in self.entries.items():
            cr = "/".join(canon_name(c) for c in r.split("/")) if canon else r
            out.append((cr, e[0], hashlib.sha1(e[1]).hexdigest() if e[0] == "f" else (e[1] if e[0] == "l" else "")))
        return sorted(out)

    def diff(self, other):
        """[(rel, 'added'|'removed'|'changed')] going from self to other (content / kind only)."""
        out = []
        for r in sorted(set(self.entries) | set(other.entries)):
            a, b = self.entries.get(r), other.entries.get(r)
            if a is None:
                out.append((r, "added"))
            elif b is None:
                out.append((r, "removed"))
            elif a != b:
                out.append((r, "changed"))
        return out

    def restore(self):
        root = self.root
        cur, cmeta = self._walk(root)
        # remove what should not be there (deepest first)
        for r in sorted(cur, key=lambda x: -x.count("/")):
            want = self.entries.get(r)
            if want is None or want[0] != cur[r][0] or (want[0] == "l" and want != cur[r]):
                f = os.path.join(root, r)
                if cur[r][0] == "d":
                    shutil.rmtree(f, ignore_errors=True)
                elif os.path.lexists(f):
                    _O.unlink(f)
        for r in sorted(self.entries, key=lambda x: x.count("/")):
            e = self.entries[r]
            f = os.path.join(root, r)
            mode, at, mt = self.meta[r]
            if e[0] == "d":
                if not os.path.isdir(f):
                    _O.mkdir(f)
            elif e[0] == "l":
                if not os.path.lexists(f):
                    _O.symlink(e[1], f)
                continue
            else:
                have = cur.get(r)
                if have != e or not os.path.exists(f):
                    with _O.open(f, "wb") as fh:
                        fh.write(e[1])
                    os.chmod(f, mode)
                    _O.utime(f, ns=(at, mt))
                elif cmeta.get(r) != self.meta[r]:
                    os.chmod(f, mode)
                    _O.utime(f, ns=(at, mt))
        for r in sorted((r for r, e in self.entries.items() if e[0] == "d"), key=lambda x: -x.count("/")):
            mode, at, mt = self.meta[r]
            _O.utime(os.path.join(root, r), ns=(at, mt))


# ----------------------------------------------------------------------------
# schedule stepping
# ----------------------------------------------------------------------------
class SchedulerError(RuntimeError):
    pass


class SchedResult:
    """executed: the actor indices actually granted, in order (feed it back to `run` to replay);
    steps: [(actor, Step)] in execution order; runs: one Run per actor."""

    def __init__(self, executed, steps, runs):
        self.executed, self.steps, self.runs = executed, steps, runs

    def __repr__(self):
        return "<SchedResult executed=%s statuses=%s>" % (self.executed, [r.status for r in self.runs])


class Scheduler:
    """Several forked actors, each blocked before every step until the scheduler grants it.

        sch = Scheduler(root, [writer, reader], reads=True)
        res = sch.run([0, 0, 1, 1, 0])        # then the remaining actors finish in index order
    or by hand
        sch.start()                           # fork; every actor runs up to its first step
        sch.pending()   -> {actor: description dict of the step it is blocked at | None when finished}
        sch.grant(i)    -> the Step actor i performed (it then runs on to its next step and blocks)
        sch.grant(i, crash=True[, torn=p])    # actor i dies instead of performing the step
        sch.grant(i, fault=errno.EIO)         # the step raises OSError
        sch.finish()    -> SchedResult (kills actors still blocked)

    While the scheduler is between grants every actor is blocked or finished, so the tree may be
    inspected (e.g. TreeSnapshot) deterministically.  `reads`/`observe`/`keep_data` as in Tracer;
    they may also be lists with one entry per actor.
    """

    def __init__(self, root, actors, *, reads=False, observe=(), keep_data=False, timeout=60.0):
        self.root = os.path.abspath(root)
        self.fns = list(actors)
        n = len(self.fns)
        self.reads = list(reads) if isinstance(reads, (list, tuple)) else [reads] * n
        self.observe = list(observe) if observe and isinstance(observe[0], (list, tuple)) else [tuple(observe)] * n
        self.keep_data, self.timeout = keep_data, timeout
        self._a = []
        self.executed, self.log = [], []
        self._started = False

    def start(self):
        if self._started:
            raise SchedulerError("already started")
        self._started = True
        sys.stdout.flush()
        sys.stderr.flush()
        for i, fn in enumerate(self.fns):
            up_r, up_w = os.pipe()
            dn_r, dn_w = os.pipe()
            pid = os.fork()
            if pid == 0:
                os.close(up_r)
                os.close(dn_w)
                for a in self._a:  # drop the fds of the siblings forked so far
                    for fd in (a["rd"].fd, a["dn"]):
                        try:
                            os.close(fd)
                        except OSError:
                            pass

                def gate(desc, _up=up_w, _dn=dn_r):
                    _write_all(_up, (json.dumps({"t": "ready", "step": desc}) + "\n").encode())
                    buf = b""
                    while not buf.endswith(b"\n"):
                        c = os.read(_dn, 256)
                        if not c:
                            os._exit(1)  # scheduler went away
                        buf += c
                    return tuple(json.loads(buf))

                _child(fn, self.root, up_w, dict(reads=self.reads[i], observe=self.observe[i],
                                                 keep_data=self.keep_data), gate=gate, actor=i)
            os.close(up_w)
            os.close(dn_r)
            self._a.append({"pid": pid, "rd": _LineReader(up_r), "dn": dn_w, "steps": [], "pending": None,
                            "status": None, "value": None, "exc": None, "crash": None, "exit": None})
        for i in range(len(self._a)):
            self._advance(i)
        return self

    def _advance(self, i):
        """Read actor i's messages until it blocks at a gate or ends; return the steps it reported."""
        a = self._a[i]
        got = []
        deadline = time.time() + self.timeout
        a["pending"] = None
        while True:
            try:
                m = a["rd"].next(deadline)
            except TimeoutError:
                a["status"] = "timeout"
                a["exit"] = _reap(a["pid"], kill=True)
                raise SchedulerError("actor %d did not reach its next step within %.0fs" % (i, self.timeout))
            if m is None:
                a["exit"] = _reap(a["pid"])
                if a["status"] is None or (a["status"] == "crashed" and a["exit"] != CRASH_EXIT):
                    a["status"] = "died"
                return got
            t = m["t"]
            if t == "step":
                st = Step.from_dict(m["step"])
                a["steps"].append(st)
                self.log.append((i, st))
                got.append(st)
            elif t == "ready":
                a["pending"] = m["step"]
                return got
            elif t == "done":
                a["status"], a["value"] = "done", m.get("value")
            elif t == "exc":
                a["status"], a["exc"] = "exc", {k: m.get(k) for k in ("name", "msg", "tb")}
            elif t == "crash":
                a["status"], a["crash"] = "crashed", (m["k"], m.get("torn") or 0)

    def pending(self):
        return {i: a["pending"] for i, a in enumerate(self._a)}

    def live(self):
        return [i for i, a in enumerate(self._a) if a["pending"] is not None]

    def grant(self, i, crash=False, torn=None, fault=None):
        a = self._a[i]
        if a["pending"] is None:
            raise SchedulerError("actor %d is not blocked at a step (status %s)" % (i, a["status"]))
        action = ["crash", torn or 0] if crash else (["fault", int(fault)] if fault else ["go"])
        _write_all(a["dn"], (json.dumps(action) + "\n").encode())
        self.executed.append(i)
        got = self._advance(i)
        return got[0] if got else None

    def run(self, schedule, finish=True, on_step=None):
        """Grant steps in the order of `schedule` (entries naming an actor that has finished are
        skipped); afterwards, with `finish`, let the remaining actors run to completion in index
        order.  `on_step(actor, step, scheduler)` is called after every granted step."""
        if not self._started:
            self.start()
        for i in schedule:
            if self._a[i]["pending"] is None:
                continue
            st = self.grant(i)
            if on_step:
                on_step(i, st, self)
        while finish and self.live():
            i = self.live()[0]
            st = self.grant(i)
            if on_step:
                on_step(i, st, self)
        return self.finish()

    def finish(self):
        runs = []
        for a in self._a:
            if a["exit"] is None:
                a["exit"] = _reap(a["pid"], kill=True)
                if a["status"] is None:
                    a["status"] = "killed"
            for fd in (a["rd"].fd, a["dn"]):
                try:
                    os.close(fd)
                except OSError:
                    pass
            runs.append(Run(a["status"], a["steps"], value=a["value"], exc=a["exc"], crash=a["crash"],
                            exit_code=a["exit"], pending=a["pending"]))
        self._a = []
        return SchedResult(list(self.executed), list(self.log), runs)


# ----------------------------------------------------------------------------
# self-test
# ----------------------------------------------------------------------------
def selftest(verbose=True):
    import gzip
    import tempfile
    import uuid

    base = "/dev/shm" if os.path.isdir("/dev/shm") and os.access("/dev/shm", os.W_OK) else None
    top = tempfile.mkdtemp(prefix="fsx_", dir=base)
    fails = []

    def check(name, cond, info=""):
        if verbose:
            print("  %-58s %s" % (name, "ok" if cond else "FAIL " + str(info)))
        if not cond:
            fails.append(name)

    try:
        root = os.path.join(top, "r")
        os.mkdir(root)
        outside = os.path.join(top, "outside.txt")

        # 1. tracing, canonical names, raw-level write accounting
        def ops():
            os.makedirs(os.path.join(root, "a", "b"))
            with open(os.path.join(root, "a", "f.txt"), "w") as f:
                f.write("hello")
                f.write(" world")          # both stay in the Python buffer -> ONE raw write at close
            tmp = os.path.join(root, "a", "._%s_doc.json" % uuid.uuid4())
            with open(tmp, "wb") as f:
                f.write(b"x" * 300000)       # larger than the buffer -> written through
            os.replace(tmp, os.path.join(root, "a", "doc.json"))
            with gzip.open(os.path.join(root, "c.gz"), "wb") as f:
                f.write(b"y" * 10)
            shutil.copyfile(os.path.join(root, "a", "f.txt"), os.path.join(root, "a", "b", "g.txt"))
            shutil.copytree(os.path.join(root, "a"), os.path.join(root, "a2"))
            os.symlink("a", os.path.join(root, "lnk"))
            os.remove(os.path.join(root, "c.gz"))
            shutil.rmtree(os.path.join(root, "a2"))
            with open(outside, "w") as f:
                f.write("not traced")
            try:
                os.mkdir(os.path.join(root, "a"))
            except FileExistsError:
                pass
            return 7

        run = record(ops, root)
        b = run.brief()
        check("record: status/value", run.status == "done" and run.value == 7, run)
        check("makedirs -> one mkdir per level", b[:2] == ["mkdir a", "mkdir a/b"], b[:2])
        check("buffered text writes = one raw write at close",
              b[2:5] == ["create a/f.txt", "write a/f.txt [11]", "close a/f.txt"], b[2:5])
        check("uuid temp name canonicalised, replace has two paths",
              b[5:9] == ["create a/._TMP_doc.json", "write a/._TMP_doc.json [300000]", "close a/._TMP_doc.json",
                         "replace a/._TMP_doc.json -> a/doc.json"], b[5:9])
        check("gzip.open goes through the patched open",
              b[9] == "create c.gz" and b[-1 - 0].startswith("mkdir a !EEXIST") and any(
                  x.startswith("write c.gz") for x in b), b[9:14])
        check("copyfile / copytree traced per file",
              "create a/b/g.txt" in b and "mkdir a2" in b and "create a2/doc.json" in b and "create a2/b/g.txt" in b, b)
        check("symlink, remove, rmtree (dir_fd) traced",
              "symlink lnk -> a" in b and "unlink c.gz" in b and "unlink a2/b/g.txt" in b and "rmdir a2" in b, b)
        check("paths outside root are not traced", not any("outside" in x for x in b))
        check("wrappers removed afterwards", builtins.open is _O.open and os.replace is _O.replace
              and shutil._USE_CP_SENDFILE == _saved_sendfile)
        w = [s for s in run.steps if s.kind == "write" and s.path == "a/._TMP_doc.json"][0]
        check("write step keeps length, sha1, offset, data",
              w.n == 300000 and w.sha1 == hashlib.sha1(b"x" * 300000).hexdigest() and w.off == 0 and w.data == b"x" * 300000)
        shutil.rmtree(root)
        os.mkdir(root)

        # 2. crash injection: atomic writer vs direct writer
        target = os.path.join(root, "doc.json")
        old, new = b'{"v": "old"}', b'{"v": "' + b"n" * 100000 + b'"}'

        def atomic_writer():
            tmp = os.path.join(root, "._%s_doc.json" % uuid.uuid4())
            with open(tmp, "wb") as f:
                f.write(new[:10])
                f.write(new[10:])
            os.replace(tmp, target)

        def direct_writer():
            with open(target, "wb") as f:
                f.write(new)

        def read_target():
            with _O.open(target, "rb") as f:
                return f.read()

        for name, writer, expect_atomic in (("atomic", atomic_writer, True), ("direct", direct_writer, False)):
            with _O.open(target, "wb") as f:
                f.write(old)
            snap = TreeSnapshot(root)
            full = fork_run(writer, root)
            check("%s writer: complete run leaves new content" % name, full.status == "done" and read_target() == new, full)
            snap.restore()
            check("%s writer: snapshot restore" % name, read_target() == old and TreeSnapshot(root).listing() == snap.listing())
            pts = crash_points(full.steps)
            seen, stray_ok = set(), True
            for k, p in pts:
                r = fork_run(writer, root, crash_at=k, torn=p)
                okst = (r.status == "crashed" and r.crash == (k, p)) if k < len(full.steps) else r.status == "done"
                if not okst:
                    check("%s writer: crash (%d,%d) status" % (name, k, p), False, (r, r.crash))
                c = read_target()
                seen.add("old" if c == old else "new" if c == new else "torn")
                extra = [x for x, _ in snap.diff(TreeSnapshot(root)) if x != "doc.json"]
                stray_ok = stray_ok and all(canon_name(x) == "._TMP_doc.json" for x in extra) and len(extra) <= 1
                snap.restore()
            if expect_atomic:
                check("atomic writer: old or new at all %d crash points, only a tmp stray" % len(pts),
                      seen == {"old", "new"} and stray_ok, (seen, stray_ok))
            else:
                check("direct writer: torn content observed at some crash point", "torn" in seen, seen)
            check("%s writer: torn classes generated" % name, any(p for _, p in pts), pts)

        # unflushed Python buffers are lost at a crash
        def small():
            f = open(os.path.join(root, "s.txt"), "w")
            f.write("abc")
            os.mkdir(os.path.join(root, "marker"))   # step 1; crash here: "abc" was never written
            f.close()

        r = fork_run(small, root, crash_at=1)
        with _O.open(os.path.join(root, "s.txt"), "rb") as f:
            check("crash loses data still in the Python buffer", r.status == "crashed" and f.read() == b"", r)
        shutil.rmtree(root)
        os.mkdir(root)

        # 3. fault injection
        with _O.open(target, "wb") as f:
            f.write(old)

        def guarded():
            try:
                atomic_writer()
            except OSError as e:
                return "caught %s" % _errno.errorcode[e.errno]
            return "no error"

        full = fork_run(atomic_writer, root)
        with _O.open(target, "wb") as f:
            f.write(old)
        for tmpf in [x for x in os.listdir(root) if x.startswith("._")]:
            os.unlink(os.path.join(root, tmpf))
        k_replace = [s.i for s in full.steps if s.kind == "replace"][0]
        r = fork_run(guarded, root, faults={k_replace: _errno.EIO})
        check("fault at the replace step raises OSError(EIO) in the code under test",
              r.status == "done" and r.value == "caught EIO" and r.steps[k_replace].err == "EIO"
              and r.steps[k_replace].injected and read_target() == old, (r, r.value))
        r = fork_run(atomic_writer, root, faults={0: _errno.ENOSPC})
        check("uncaught injected fault is reported as exc", r.status == "exc" and r.exc["name"] == "OSError(ENOSPC)", r.exc)
        shutil.rmtree(root)
        os.mkdir(root)

        # 4. schedule stepping: one reader at every position of one writer; replay
        with _O.open(target, "wb") as f:
            f.write(old)
        snap = TreeSnapshot(root)

        def reader():
            with open(target, "rb") as f:
                c = f.read()
            return "old" if c == old else "new" if c == new else "torn"

        nsteps = len(fork_run(atomic_writer, root).steps)
        snap.restore()
        seen = []
        for pos in range(nsteps + 1):
            res = Scheduler(root, [atomic_writer, reader], reads=[False, True]).run([0] * pos + [1] * 10)
            seen.append(res.runs[1].value)
            if res.runs[0].status != "done" or res.runs[1].status != "done":
                check("scheduler: both actors finish (pos %d)" % pos, False, res)
            snap.restore()
        check("reader at every writer position sees old ... new", seen == ["old"] * (nsteps) + ["new"], seen)
        res1 = Scheduler(root, [atomic_writer, reader], reads=[False, True]).run([0, 1, 0, 1, 1, 0])
        snap.restore()
        res2 = Scheduler(root, [atomic_writer, reader], reads=[False, True]).run(res1.executed, finish=False)
        snap.restore()
        check("schedule replay gives the same interleaved trace",
              [(a, s.shape()) for a, s in res1.steps] == [(a, s.shape()) for a, s in res2.steps]
              and res1.executed == res2.executed, (res1.executed, res2.executed))
        # reader holding the old inode: open before the replace, read after it
        sch = Scheduler(root, [atomic_writer, reader], reads=[False, True]).start()
        first = sch.pending()[1]
        sch.grant(1)                                   # reader: openr
        while sch.pending()[0] is not None:
            sch.grant(0)                               # writer runs to completion
        res = sch.run([])
        check("reader that opened before the replace still reads the old inode",
              first["kind"] == "openr" and res.runs[1].value == "old" and read_target() == new, (first, res.runs[1].value))
        snap.restore()
        # direct writer: a reader in the middle sees a torn file
        nd = len(fork_run(direct_writer, root).steps)
        snap.restore()
        seen = []
        for pos in range(nd + 1):
            res = Scheduler(root, [direct_writer, reader], reads=[False, True]).run([0] * pos + [1] * 10)
            seen.append(res.runs[1].value)
            snap.restore()
        check("reader of a direct writer sees a torn file at some position", "torn" in seen, seen)
        # crash / fault through the scheduler
        sch = Scheduler(root, [atomic_writer]).start()
        sch.grant(0)
        sch.grant(0, crash=True, torn=3)
        res = sch.finish()
        check("scheduler-driven crash", res.runs[0].status == "crashed" and res.runs[0].crash == (1, 3), res.runs[0].crash)
        snap.restore()
    finally:
        shutil.rmtree(top, ignore_errors=True)
    if verbose:
        print("fsx selftest: %s" % ("OK" if not fails else "FAILED %s" % fails))
    return not fails


if __name__ == "__main__":
    if "--selftest" in sys.argv:
        sys.exit(0 if selftest() else 1)
    print(__doc__)
